#!/usr/bin/env python3
"""usage: mk_agent_prompts.py <suffix> <prop-id>... : writes /tmp/agent-prompt-<prop><suffix>.txt for fresh seeding
sub-agents (property text + scratch worktree only; nothing from /verif is mentioned besides the list of used ideas)."""
import json, sys, glob
suffix = sys.argv[1]
props = {json.loads(l)['id']: json.loads(l) for l in open('/verif/properties.jsonl')}
used = '; '.join(json.load(open(f))['change'] for f in sorted(glob.glob('/verif/seeded/*/meta.json')))
T = open('/verif/tools/agent_prompt_template.txt').read()
for pid in sys.argv[2:]:
    p = props[pid]
    sid = pid + suffix
    txt = T.replace('@ID@', sid).replace('@PID@', pid).replace('@TITLE@', p['title']).replace('@STATEMENT@', p['statement']).replace('@QUANT@', p['quantifier']['text']).replace('@USED@', used)
    open(f'/tmp/agent-prompt-{sid}.txt', 'w').write(txt)
    print(sid)
