#!/bin/bash
# usage: try_seed.sh <patch.diff> <check> [<check>...] : apply a seeded change to /repo, run the quick checks, undo it.
# Prints one line per check: CAUGHT / MISSED.
set -u
P="$1"; shift
cd /repo || exit 2
[ -n "$(git status --porcelain -- src)" ] && { echo "/repo/src not clean" >&2; exit 2; }
trap 'git -C /repo checkout -- . ; git -C /repo clean -fdq -- src tests 2>/dev/null' EXIT
git apply "$P" || { echo "patch does not apply"; exit 2; }
for c in "$@"; do
  out="$(cd /verif && ./check "$c" --tier quick 2>&1)"; rc=$?
  first="$(echo "$out" | grep -m1 -A1 '^VIOLATION' | tr '\n' ' ' | cut -c1-330)"
  if [ $rc = 1 ]; then echo "CAUGHT by $c: $first"; elif [ $rc = 0 ]; then echo "MISSED by $c"; else echo "ERROR($rc) in $c: $(echo "$out" | tail -3 | tr '\n' ' ' | cut -c1-300)"; fi
done
