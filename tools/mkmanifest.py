#!/usr/bin/env python3
"""Regenerates /verif/MANIFEST.json from the table below (kept in one place so it stays valid)."""
import json, subprocess
props = [json.loads(l) for l in open('/verif/properties.jsonl')]
T = {
 "C20": ("exploration", "deterministic simulation: sparse multi-GiB/TiB SimDisks, FS-info hint at/before/past the last cluster, short seeded histories; device-offset bound check, contents/extents read back at independently computed 64-bit offsets, sparse-aware fsck"),
 "C08": ("exploration", "deterministic simulation: volumes from an independent spec-driven image builder (refgen) read through the library vs ground truth; seeded mutating sessions on them with model, independent fsck and raw-diff ownership audit, benign device faults"),
 "C19": ("exploration", "deterministic simulation: identical concrete histories replayed in three feature builds of the library (child processes), image fingerprint + observation-trace comparison, each build also checked against its own model"),
 "C17": ("fault_enumeration", "deterministic simulation: corrupt_at_rest fault enumeration on directory regions (pattern space of short LFN runs, per-byte sweeps, seeded slot soup), guarded read-only session vs independent slot decoder; run in the alloc and the fixed-buffer build"),
 "C15": ("exploration", "deterministic simulation: name-centred scripts on the engine (create/rename sinks into populated directories, lookups by case variants, alias, near misses) vs tree model and raw image; code-point and length sweeps hosted on the simulator"),
 "C16": ("exploration", "deterministic simulation: colliding directory populations (6-char form, 2-char+hash form, removals) with raw short-name legality / uniqueness / LFN-checksum checks by the independent decoder after every call"),
 "C01": ("exploration", "deterministic simulation: seeded multi-client namespace histories on SimDisk vs in-memory tree model + independent raw decode, benign device faults (EINTR, short reads/writes)"),
 "C02": ("exploration", "deterministic simulation: seeded interleaved file I/O on several open files vs byte-array model, boundary-biased offsets, benign device faults"),
 "C03": ("exploration", "deterministic simulation: independent fsck of the raw image after every simulated API call; injected hard errors (seeded, and single-fault enumeration over every device call of mutating operations) with the findings no interrupted call may leave kept in force"),
 "C04": ("exploration", "deterministic simulation: checkpoints (second mount of a copy-on-write snapshot, unmount/drop/abandon + remount, extents) vs model"),
 "C05": ("exploration", "deterministic simulation: stats()/FS-info vs independently counted FAT after every call on ballasted volumes, NotEnoughSpace justified from the raw image; transient storage errors with retry (seeded, enumeration of remove, inside unmount) and power cuts inside unmount / inside calls with remount"),
 "C06": ("exploration", "deterministic simulation: swarm-drawn format requests on SimDisk (benign faults, canary tail) checked by independent decoder + mount; storage-fault probe (device failing beyond byte 511) sweeping sizes"),
 "C07": ("fault_enumeration", "deterministic simulation: corrupt_at_rest fault enumeration on BPB / FS-info fields, guarded mount + first use vs independent coherence predicate"),
 "C09": ("fault_enumeration", "deterministic simulation: exhaustive single-fault enumeration over the device calls of a target operation in seeded histories (hard error at call k, device-dies variant, call budget), in_drop hook"),
 "C10": ("exploration", "deterministic simulation: FAT copy comparison and per-entry diff audit after every call (volumes formatted on blank and non-blank devices, builder-made foreign images)"),
 "C11": ("exploration", "deterministic simulation: audit of every logged device write against an ownership map decoded before the call; canaries; short-write faults"),
 "C12": ("fault_enumeration", "deterministic simulation with crash points at every call boundary: status byte vs structural change derived from the write log; abandoned snapshots remounted; transient storage errors with retry and inside unmount"),
 "C13": ("exploration", "deterministic simulation: device write log of seeded read-only sessions must be empty"),
 "C14": ("fault_enumeration", "deterministic simulation: lost_suffix fault (power cut on a flush-honouring write-back cache) at every device-write boundary after each flush point, remount + read back"),
 "C18": ("exploration", "deterministic simulation: SimClock-driven histories (skew, jumps, edges), stamping rules vs model; raw timestamp words decoded independently"),
}
NA_PENDING = "check not built yet in this round (planned, see DESIGN.md section 3); not a statement about applicability"
checks = []
for p in props:
    i = p['id']
    if i not in T: continue
    cat, tech = T[i]
    text = {
      "exploration": "seeded search over histories x volume configurations x device faults with an executable oracle after every call; a clean batch is evidence, not proof",
      "fault_enumeration": "enumeration of fault positions / fault parameters (crash points, failing call index, corrupted field values) per explored history or base volume, seeded beyond; exhaustive only for the finite sub-spaces named in the evidence",
    }[cat]
    checks.append({
      "property_id": i,
      "quick_cmd": f"./check {i} --tier quick",
      "thorough_cmd": f"./check {i} --tier thorough",
      "evidence_file": f"/verif/evidence/{i}.json",
      "replay_cmd_template": f"./check {i} --replay {{path}}",
      "engine": "fatsim",
      "level_claimed": {"category": cat, "text": text, "design_ref": f"DESIGN.md section 3 ({i})"},
      "level_note": "trusted: refdec (independent decoder/fsck written from the FAT specification), the tree model, SimDisk, rustc; sampling, not exhaustive unless the evidence says so",
      "technique": tech,
    })
hook = subprocess.check_output(['git','-C','/repo','log','--format=%h','--grep=verif hook']).decode().split()
m = {
 "version": 1,
 "setup_cmd": "cd /verif/sim && CARGO_NET_OFFLINE=true cargo build --release --offline && cargo build --release --offline --no-default-features --features f_unicode --target-dir target-noalloc && cargo build --release --offline --no-default-features --features f_alloc --target-dir target-nounicode && ./target/release/fatsim selftest",
 "hooks": {"guard": "fatfs_verif", "enable": "RUSTFLAGS=\"--cfg fatfs_verif\" (set in /verif/sim/.cargo/config.toml)", "baseline_off_cmd": "cd /repo && cargo test --workspace --no-fail-fast --offline", "source_commits": hook, "add_only": True},
 "engines": [{"name": "fatsim", "path": "/verif/sim", "serves_properties": sorted(T), "kind_free_text": "deterministic simulator: SimDisk (fault-injecting sparse block device with write log), SimClock, seeded multi-client scheduler, tree model, independent FAT decoder, crash-image builder"}],
 "checks": checks,
 "not_applicable": [{"property_id": p['id'], "reason": NA_PENDING} for p in props if p['id'] not in T],
 "notes": "All checks honour VERIF_SEED (default 1) and VERIF_TIER. Exit 0 held / 1 VIOLATION / 2 harness or build error. Known findings: /verif/known_findings.json.",
}
json.dump(m, open('/verif/MANIFEST.json', 'w'), indent=1)
print("claimed:", sorted(T))
