#!/bin/bash
# Re-runs every seeded change under /verif/seeded against the quick tier of the checks of the properties it breaks.
# For each: apply to /repo, run, copy the replay of the first violation next to the patch, undo. Prints a table.
cd /verif || exit 2
declare -A CHECKS=(
 [C07k]="C07" [C17k]="C17" [C15k]="C15" [C20k]="C05"
 [C04j]="C04 C03" [C06j]="C06" [C08j]="C08 C18" [C10j]="C10" [C11j]="C11 C08" [C12j]="C12" [C13j]="C13" [C16j]="C16"
 [C01i]="C01 C03" [C02i]="C02" [C03i]="C03" [C05i]="C05" [C07i]="C07" [C17i]="C17" [C19i]="C17" [C20i]="C05" [C14i]="C14" [C09i]="C09" [C13i]="C13" [C18i]="C18"
 [C04h]="C04" [C09h]="C09" [C10h]="C10 C06" [C11h]="C03" [C12h]="C12" [C13h]="C13" [C14h]="C14" [C15h]="C15" [C16h]="C16" [C18h]="C18" [C06h]="C06" [C08h]="C08"
 [C06g]="C06" [C07g]="C07" [C08g]="C08 C10" [C10g]="C10 C08" [C11g]="C03" [C17g]="C17" [C19g]="C17" [C20g]="C20" [C03g]="C03" [C01g]="C01" [C02g]="C03" [C05g]="C05 C12"
 [C01f]="C01 C03" [C02f]="C02" [C03f]="C03" [C04f]="C04 C02" [C05f]="C05" [C13f]="C13" [C15f]="C15" [C18f]="C18" [C12f]="C12" [C14f]="C14 C03" [C09f]="C09" [C16f]="C16"
 [C09e]="C09" [C14e]="C14 C03" [C12e]="C12" [C10e]="C10 C08" [C11e]="C11 C08" [C20e]="C20" [C08e]="C08 C10" [C06e]="C06" [C17e]="C17" [C16e]="C16" [C19e]="C19" [C07e]="C07"
 [C15d]="C15" [C05d]="C05" [C02d]="C02" [C03d]="C03" [C01d]="C01 C03" [C09d]="C09" [C11d]="C11 C05" [C04d]="C04 C01" [C13d]="C13 C18" [C18d]="C18"
 [C01]="C01 C03" [C01b]="C01 C03" [C02]="C02" [C02b]="C02 C03" [C03]="C03" [C03b]="C03 C01" [C04]="C04 C03" [C04c]="C04 C01"
 [C05]="C05" [C05b]="C05" [C06]="C06" [C06c]="C06" [C07]="C07" [C07c]="C07" [C08]="C08" [C08c]="C08" [C09]="C09" [C09b]="C09"
 [C10]="C10 C11" [C10c]="C10" [C11]="C11 C05" [C11b]="C11" [C12]="C12" [C12c]="C12" [C13]="C13" [C13c]="C13" [C14]="C14" [C14c]="C14"
 [C15]="C15" [C16]="C16" [C16c]="C16" [C17]="C17" [C17c]="C17" [C18]="C18" [C18c]="C18" [C19]="C19" [C19c]="C19" [C20]="C20" [C20c]="C20"
)
for d in seeded/*/; do
  id=$(basename "$d")
  if [ -n "${ONLY:-}" ] && ! echo " $ONLY " | grep -q " $id "; then continue; fi
  [ -n "$(git -C /repo status --porcelain -- src)" ] && { echo "/repo/src not clean"; exit 2; }
  git -C /repo apply "/verif/$d/patch.diff" || { echo "$id: patch does not apply"; continue; }
  res=""
  for c in ${CHECKS[$id]}; do
    out="$(./check "$c" --tier quick 2>&1)"; rc=$?
    if [ $rc = 1 ]; then
      rp="$(echo "$out" | grep -m1 '^VIOLATION' | sed 's/.*replay=//')"
      cls="$(echo "$out" | grep -m1 'class=' | sed 's/.*class=\([^ ]*\).*/\1/')"
      [ -f "$rp" ] && cp "$rp" "$d/replay-$c.json"
      res="$res $c:CAUGHT($cls)"
    elif [ $rc = 0 ]; then res="$res $c:missed"; else res="$res $c:ERROR$rc"; fi
  done
  git -C /repo checkout -- .
  echo "$id ->$res"
done
echo finished
