#!/bin/bash
# usage: verify_seed.sh <seed-dir> : confirms a seeded change in a scratch worktree of /repo
# (compiles, baseline tests still pass, demo fails with the change and passes without). Prints a verdict line.
set -u
SD="$(cd "$1" && pwd)"; ID="$(basename "$SD")"; WT="/tmp/vs-$ID"
BASE="$(python3 -c "import json;print('\n'.join(t.split('::',1)[1].split('::')[-1] for t in json.load(open('/root/.vp/BASELINE.json'))['stable_pass']))")"
git -C /repo worktree add -q --detach "$WT" HEAD || exit 2
cd "$WT"
ok=1
git apply "$SD/patch.diff" || { echo "VERDICT $ID patch-does-not-apply"; ok=0; }
if [ $ok = 1 ]; then
  cp "$SD/seeded_demo.rs" tests/seeded_demo.rs
  cargo test --offline --test seeded_demo > "$SD/demo_with.log" 2>&1; with=$?
  cargo test --offline --no-fail-fast > "$SD/suite_with.log" 2>&1
  missing=0
  for t in $BASE; do grep -qE "^test (.*::)?$t (- should panic )?\.\.\. ok" "$SD/suite_with.log" || { missing=$((missing+1)); echo "  baseline test not ok: $t" >> "$SD/suite_missing.log"; }; done
  git apply -R "$SD/patch.diff"
  cargo test --offline --test seeded_demo > "$SD/demo_without.log" 2>&1; without=$?
  echo "VERDICT $ID demo_with_change_exit=$with demo_without_change_exit=$without baseline_tests_not_ok=$missing"
fi
cd /; git -C /repo worktree remove --force "$WT"
