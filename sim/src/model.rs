//! Reference model: a plain in-memory tree with case-insensitive, case-preserving names.
use crate::clock::Stamp;
use serde::{Deserialize, Serialize};

pub type NodeId = usize;

#[derive(Clone, Debug, PartialEq, Eq, Serialize, Deserialize)]
pub enum E {
    NotFound,
    InvalidInput,
    AlreadyExists,
    DirNotEmpty,
    NameLen,
    NameChar,
    NoSpace,
    WriteZero,
    UnexpectedEof,
    Corrupted,
    Io(u64),
    IoOther(String),
}

#[derive(Clone, Debug)]
pub struct Node {
    pub name: String,
    /// short alias in display form ("LONGFI~1.TXT"), decoded through the session's OEM converter
    pub alias: Option<String>,
    pub is_dir: bool,
    pub content: Vec<u8>,
    pub children: Vec<NodeId>,
    pub parent: Option<NodeId>,
    pub created: Stamp,
    pub modified: Stamp,
    pub accessed: (u16, u16, u16),
    pub attrs: u8,
    pub alive: bool,
    /// timestamps are only compared for nodes whose stamps the model knows (not for foreign volumes' dirs etc.)
    pub times_known: bool,
}

#[derive(Clone, Debug)]
pub struct Model {
    pub nodes: Vec<Node>,
    pub unicode: bool,
}

pub const ROOT: NodeId = 0;

pub fn fold(s: &str, unicode: bool) -> Vec<char> {
    if unicode {
        s.chars().flat_map(char::to_uppercase).collect()
    } else {
        s.chars().map(|c| c.to_ascii_uppercase()).collect()
    }
}

/// the documented long-name character set (U+FFFF, the long-name padding value, is excluded: see finding D16)
pub fn char_ok(c: char) -> bool {
    matches!(c,
        'a'..='z' | 'A'..='Z' | '0'..='9' | '\u{80}'..='\u{FFFE}'
        | '$' | '%' | '\'' | '-' | '_' | '@' | '~' | '`' | '!' | '(' | ')' | '{' | '}' | '.' | ' ' | '+' | ','
        | ';' | '=' | '[' | ']' | '^' | '#' | '&')
}

/// None = acceptable; Some(errors that apply)
pub fn name_errors(name: &str) -> Vec<E> {
    let mut v = vec![];
    if name.is_empty() || name.len() > 255 {
        v.push(E::NameLen);
    }
    if name.chars().any(|c| !char_ok(c)) {
        v.push(E::NameChar);
    }
    v
}

pub fn components(path: &str) -> Vec<&str> {
    let v: Vec<&str> = path.split('/').filter(|c| !c.is_empty()).collect();
    if v.is_empty() {
        vec![""]
    } else {
        v
    }
}

pub fn round_modified(s: Stamp) -> Stamp {
    Stamp { s: s.s & !1, ms: 0, ..s }
}

pub fn round_created(s: Stamp) -> Stamp {
    Stamp { ms: s.ms / 10 * 10, ..s }
}

#[derive(Clone, Debug)]
pub enum Lookup {
    Found(NodeId),
    Missing,
}

impl Model {
    pub fn new(unicode: bool, now: Stamp) -> Self {
        let root = Node {
            name: String::new(),
            alias: None,
            is_dir: true,
            content: vec![],
            children: vec![],
            parent: None,
            created: now,
            modified: now,
            accessed: now.date(),
            attrs: 0x10,
            alive: true,
            times_known: false,
        };
        Model { nodes: vec![root], unicode }
    }

    pub fn child(&self, dir: NodeId, name: &str) -> Option<NodeId> {
        let d = &self.nodes[dir];
        if dir != ROOT {
            if name == "." {
                return Some(dir);
            }
            if name == ".." {
                return d.parent;
            }
        }
        let f = fold(name, self.unicode);
        let mut hit = None;
        for &c in &d.children {
            let n = &self.nodes[c];
            if fold(&n.name, self.unicode) == f {
                return Some(c);
            }
            if let Some(a) = &n.alias {
                if hit.is_none() && fold(a, self.unicode) == f {
                    hit = Some(c);
                }
            }
        }
        hit
    }

    /// how many children match `name` (by long name or alias) -- ambiguity detector
    pub fn matches(&self, dir: NodeId, name: &str) -> usize {
        let f = fold(name, self.unicode);
        self.nodes[dir]
            .children
            .iter()
            .filter(|c| {
                let n = &self.nodes[**c];
                fold(&n.name, self.unicode) == f || n.alias.as_ref().map_or(false, |a| fold(a, self.unicode) == f)
            })
            .count()
    }

    /// walk all but the last component. Err = error kinds that apply.
    pub fn walk_parent<'a>(&self, base: NodeId, path: &'a str) -> Result<(NodeId, &'a str), E> {
        let comps = components(path);
        let mut cur = base;
        for c in &comps[..comps.len() - 1] {
            match self.child(cur, c) {
                None => return Err(E::NotFound),
                Some(n) => {
                    if !self.nodes[n].is_dir {
                        return Err(E::InvalidInput);
                    }
                    cur = n;
                }
            }
        }
        Ok((cur, comps[comps.len() - 1]))
    }

    pub fn resolve(&self, base: NodeId, path: &str) -> Result<NodeId, E> {
        let (p, leaf) = self.walk_parent(base, path)?;
        self.child(p, leaf).ok_or(E::NotFound)
    }

    pub fn path_of(&self, n: NodeId) -> Vec<String> {
        let mut v = vec![];
        let mut cur = n;
        while let Some(p) = self.nodes[cur].parent {
            v.push(self.nodes[cur].name.clone());
            cur = p;
        }
        v.reverse();
        v
    }

    pub fn path_string(&self, n: NodeId) -> String {
        format!("/{}", self.path_of(n).join("/"))
    }

    pub fn is_ancestor_or_self(&self, anc: NodeId, n: NodeId) -> bool {
        let mut cur = Some(n);
        while let Some(c) = cur {
            if c == anc {
                return true;
            }
            cur = self.nodes[c].parent;
        }
        false
    }

    pub fn add(&mut self, parent: NodeId, name: &str, is_dir: bool, now: Stamp) -> NodeId {
        let id = self.nodes.len();
        self.nodes.push(Node {
            name: name.to_string(),
            alias: None,
            is_dir,
            content: vec![],
            children: vec![],
            parent: Some(parent),
            created: round_created(now),
            modified: round_modified(now),
            accessed: now.date(),
            attrs: if is_dir { 0x10 } else { 0 },
            alive: true,
            times_known: true,
        });
        self.nodes[parent].children.push(id);
        id
    }

    pub fn detach(&mut self, n: NodeId) {
        if let Some(p) = self.nodes[n].parent {
            self.nodes[p].children.retain(|c| *c != n);
        }
    }

    pub fn remove(&mut self, n: NodeId) {
        self.detach(n);
        self.nodes[n].alive = false;
    }

    pub fn mv(&mut self, n: NodeId, new_parent: NodeId, new_name: &str) {
        self.detach(n);
        self.nodes[n].parent = Some(new_parent);
        self.nodes[n].name = new_name.to_string();
        self.nodes[n].alias = None;
        self.nodes[new_parent].children.push(n);
    }

    pub fn live_nodes(&self) -> Vec<NodeId> {
        let mut out = vec![];
        let mut stack = vec![ROOT];
        while let Some(n) = stack.pop() {
            out.push(n);
            for c in &self.nodes[n].children {
                stack.push(*c);
            }
        }
        out.sort_unstable();
        out
    }

    pub fn dirs(&self) -> Vec<NodeId> {
        self.live_nodes().into_iter().filter(|n| self.nodes[*n].is_dir).collect()
    }

    pub fn files(&self) -> Vec<NodeId> {
        self.live_nodes().into_iter().filter(|n| !self.nodes[*n].is_dir).collect()
    }

    /// canonical listing: (path as UTF-16 components, is_dir, content) sorted
    pub fn flatten(&self) -> Vec<(Vec<Vec<u16>>, bool, Vec<u8>)> {
        let mut out = vec![];
        for n in self.live_nodes() {
            if n == ROOT {
                continue;
            }
            let path: Vec<Vec<u16>> = self.path_of(n).iter().map(|s| s.encode_utf16().collect()).collect();
            out.push((path, self.nodes[n].is_dir, self.nodes[n].content.clone()));
        }
        out.sort();
        out
    }

    /// shape fingerprint for the "distinct abstract states" measure
    pub fn shape_hash(&self) -> u64 {
        let mut h = 0x55u64;
        for (p, d, c) in self.flatten() {
            for comp in &p {
                let b: Vec<u8> = comp.iter().flat_map(|u| u.to_le_bytes()).collect();
                h = crate::rng::hash_bytes(h, &b);
                h = crate::rng::hash_bytes(h, b"/");
            }
            h = crate::rng::hash_bytes(h, &[u8::from(d)]);
            h = crate::rng::hash_bytes(h, &(c.len() as u64).to_le_bytes());
        }
        h
    }
}

impl Model {
    /// load the ground truth of a builder-made volume
    pub fn load_truth(&mut self, truth: &[crate::refgen::Truth], occ: crate::types::SimOcc) {
        use std::collections::BTreeMap;
        let mut by_path: BTreeMap<Vec<Vec<u16>>, NodeId> = BTreeMap::new();
        by_path.insert(vec![], ROOT);
        let mut items: Vec<&crate::refgen::Truth> = truth.iter().collect();
        items.sort_by_key(|t| t.path.len());
        for t in items {
            let disp = t.display_path(occ);
            let parent = by_path[&disp[..disp.len() - 1].to_vec()];
            let (_, sfn, _) = t.path.last().unwrap();
            let name = String::from_utf16_lossy(disp.last().unwrap());
            let alias: String = crate::refdec::short_display(sfn, 0).iter().map(|b| occ.dec(*b)).collect();
            let dd = |d: u16| (1980 + (d >> 9), (d >> 5) & 0xF, d & 0x1F);
            let (cy, cm, cd) = dd(t.cdate);
            let (my, mm, md) = dd(t.mdate);
            let created = Stamp { y: cy, mo: cm, d: cd, h: t.ctime >> 11, mi: (t.ctime >> 5) & 0x3F, s: (t.ctime & 0x1F) * 2 + u16::from(t.ctime_tenth / 100), ms: u16::from(t.ctime_tenth % 100) * 10 };
            let modified = Stamp { y: my, mo: mm, d: md, h: t.mtime >> 11, mi: (t.mtime >> 5) & 0x3F, s: (t.mtime & 0x1F) * 2, ms: 0 };
            let id = self.nodes.len();
            self.nodes.push(Node {
                name,
                alias: Some(alias),
                is_dir: t.is_dir,
                content: t.content.clone(),
                children: vec![],
                parent: Some(parent),
                created,
                modified,
                accessed: dd(t.adate),
                attrs: t.attr,
                alive: true,
                times_known: true,
            });
            self.nodes[parent].children.push(id);
            by_path.insert(disp, id);
        }
    }
}
