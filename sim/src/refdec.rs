//! Independent FAT12/16/32 decoder and checker, written from the Microsoft FAT specification
//! (fatgen103), not from the library. It is the oracle for everything "on disk".
use crate::disk::Store;
use std::collections::{BTreeMap, BTreeSet};

#[derive(Clone, Debug, PartialEq, Eq)]
pub struct Geo {
    pub bps: u32,
    pub spc: u32,
    pub reserved: u32,
    pub nfats: u32,
    pub root_entries: u32,
    pub total_sectors: u32,
    pub spf: u32,
    /// BPB_FATSz16 == 0: the extended (FAT32) BPB layout is in use
    pub ext_layout: bool,
    /// 12, 16 or 32 -- decided by the cluster count alone, as the specification demands
    pub fat_bits: u32,
    pub n_clusters: u32,
    pub root_cluster: u32,
    pub fsinfo_sector: u32,
    pub backup_sector: u32,
    pub ext_flags: u16,
    pub media: u8,
    pub fat_off: u64,
    pub fat_bytes: u64,
    pub root_off: u64,
    pub root_bytes: u64,
    pub data_off: u64,
    pub cluster_bytes: u64,
    pub vol_bytes: u64,
    pub status_off: u64,
}

impl Geo {
    pub fn mirroring(&self) -> bool {
        !(self.fat_bits == 32 && self.ext_flags & 0x80 != 0)
    }
    pub fn active_fat(&self) -> u32 {
        if self.mirroring() {
            0
        } else {
            u32::from(self.ext_flags & 0x0F)
        }
    }
    pub fn cluster_off(&self, c: u32) -> u64 {
        self.data_off + u64::from(c - 2) * self.cluster_bytes
    }
    pub fn max_cluster(&self) -> u32 {
        self.n_clusters + 1
    }
    pub fn fat_copy_off(&self, copy: u32) -> u64 {
        self.fat_off + u64::from(copy) * self.fat_bytes
    }
    pub fn eoc_min(&self) -> u32 {
        match self.fat_bits {
            12 => 0xFF8,
            16 => 0xFFF8,
            _ => 0x0FFF_FFF8,
        }
    }
    pub fn bad_mark(&self) -> u32 {
        match self.fat_bits {
            12 => 0xFF7,
            16 => 0xFFF7,
            _ => 0x0FFF_FFF7,
        }
    }
    /// entries the FAT can hold
    pub fn fat_capacity(&self) -> u64 {
        self.fat_bytes * 8 / u64::from(self.fat_bits)
    }
}

/// Raw BPB fields (no interpretation).
#[derive(Clone, Debug)]
pub struct RawBpb {
    pub bps: u16,
    pub spc: u8,
    pub reserved: u16,
    pub nfats: u8,
    pub root_entries: u16,
    pub tot16: u16,
    pub media: u8,
    pub fatsz16: u16,
    pub tot32: u32,
    pub fatsz32: u32,
    pub ext_flags: u16,
    pub fs_ver: u16,
    pub root_cluster: u32,
    pub fsinfo: u16,
    pub backup: u16,
    pub sig: [u8; 2],
}

pub fn raw_bpb(img: &Store) -> RawBpb {
    RawBpb {
        bps: img.u16_at(11),
        spc: img.u8_at(13),
        reserved: img.u16_at(14),
        nfats: img.u8_at(16),
        root_entries: img.u16_at(17),
        tot16: img.u16_at(19),
        media: img.u8_at(21),
        fatsz16: img.u16_at(22),
        tot32: img.u32_at(32),
        fatsz32: img.u32_at(36),
        ext_flags: img.u16_at(40),
        fs_ver: img.u16_at(42),
        root_cluster: img.u32_at(44),
        fsinfo: img.u16_at(48),
        backup: img.u16_at(50),
        sig: [img.u8_at(510), img.u8_at(511)],
    }
}

/// The coherence predicate of C07, in 64-bit arithmetic: Ok(geometry) iff the BPB describes a
/// volume whose regions fit and whose FAT width is consistent.
pub fn coherent(r: &RawBpb) -> Result<Geo, String> {
    let bps = u64::from(r.bps);
    if !(r.bps.is_power_of_two() && (512..=4096).contains(&r.bps)) {
        return Err(format!("bytes per sector {}", r.bps));
    }
    if !(r.spc.is_power_of_two()) {
        return Err(format!("sectors per cluster {}", r.spc));
    }
    if r.reserved == 0 {
        return Err("no reserved sectors".into());
    }
    if r.nfats == 0 {
        return Err("no FATs".into());
    }
    let ext = r.fatsz16 == 0;
    let spf = if ext { u64::from(r.fatsz32) } else { u64::from(r.fatsz16) };
    if spf == 0 {
        return Err("FAT size 0".into());
    }
    let total = if r.tot16 != 0 { u64::from(r.tot16) } else { u64::from(r.tot32) };
    if total == 0 {
        return Err("total sectors 0".into());
    }
    let root_secs = (u64::from(r.root_entries) * 32 + bps - 1) / bps;
    let fat_secs = u64::from(r.nfats) * spf;
    let meta = u64::from(r.reserved) + fat_secs + root_secs;
    if meta > u64::from(u32::MAX) {
        return Err("metadata regions wrap 32 bits".into());
    }
    if meta >= total {
        return Err("metadata regions do not fit".into());
    }
    let data = total - meta;
    let n = data / u64::from(r.spc);
    let bits = if n < 4085 {
        12
    } else if n < 65525 {
        16
    } else {
        32
    };
    if (bits == 32) != ext {
        return Err(format!("FAT width {} inconsistent with BPB layout (ext={})", bits, ext));
    }
    if bits == 32 {
        if n > 0x0FFF_FFFF {
            return Err("too many clusters".into());
        }
        if r.root_cluster < 2 || u64::from(r.root_cluster) > n + 1 {
            return Err(format!("root cluster {} out of range", r.root_cluster));
        }
        if r.fsinfo >= r.reserved || r.backup >= r.reserved {
            return Err("fsinfo/backup outside reserved area".into());
        }
        if r.ext_flags & 0x80 != 0 && u32::from(r.ext_flags & 0x0F) >= u32::from(r.nfats) {
            return Err(format!("mirroring disabled and active FAT {} of {}", r.ext_flags & 0x0F, r.nfats));
        }
        if r.root_entries != 0 {
            return Err("root entries on FAT32".into());
        }
    } else if r.root_entries == 0 {
        return Err("no root entries on FAT12/16".into());
    }
    let fat_off = u64::from(r.reserved) * bps;
    let fat_bytes = spf * bps;
    let root_off = fat_off + fat_secs * bps;
    let root_bytes = root_secs * bps;
    let data_off = root_off + root_bytes;
    Ok(Geo {
        bps: r.bps.into(),
        spc: r.spc.into(),
        reserved: r.reserved.into(),
        nfats: r.nfats.into(),
        root_entries: r.root_entries.into(),
        total_sectors: total as u32,
        spf: spf as u32,
        ext_layout: ext,
        fat_bits: bits,
        n_clusters: n as u32,
        root_cluster: if bits == 32 { r.root_cluster } else { 0 },
        fsinfo_sector: r.fsinfo.into(),
        backup_sector: r.backup.into(),
        ext_flags: if ext { r.ext_flags } else { 0 },
        media: r.media,
        fat_off,
        fat_bytes,
        root_off,
        root_bytes,
        data_off,
        cluster_bytes: u64::from(r.spc) * bps,
        vol_bytes: total * bps,
        status_off: if ext { 0x41 } else { 0x25 },
    })
}

pub fn geo(img: &Store) -> Result<Geo, String> {
    coherent(&raw_bpb(img))
}

/// Raw FAT entry `c` of copy `copy` (FAT32: all 32 bits).
pub fn fat_raw(img: &Store, g: &Geo, copy: u32, c: u32) -> u32 {
    let base = g.fat_copy_off(copy);
    match g.fat_bits {
        12 => {
            let o = base + u64::from(c) + u64::from(c / 2);
            let w = u32::from(img.u16_at(o));
            if c & 1 == 0 {
                w & 0xFFF
            } else {
                w >> 4
            }
        }
        16 => u32::from(img.u16_at(base + u64::from(c) * 2)),
        _ => img.u32_at(base + u64::from(c) * 4),
    }
}

pub fn fat_val(img: &Store, g: &Geo, c: u32) -> u32 {
    let v = fat_raw(img, g, g.active_fat(), c);
    if g.fat_bits == 32 {
        v & 0x0FFF_FFFF
    } else {
        v
    }
}

#[derive(Clone, Debug, PartialEq, Eq)]
pub enum SlotClass {
    End,
    Deleted,
    Lfn,
    Label,
    Sfn,
}

#[derive(Clone, Debug)]
pub struct Slot {
    pub off: u64,
    pub b: [u8; 32],
}

impl Slot {
    pub fn class(&self) -> SlotClass {
        if self.b[0] == 0 {
            SlotClass::End
        } else if self.b[0] == 0xE5 {
            SlotClass::Deleted
        } else if self.b[11] & 0x3F == 0x0F {
            SlotClass::Lfn
        } else if self.b[11] & 0x08 != 0 {
            SlotClass::Label
        } else {
            SlotClass::Sfn
        }
    }
    pub fn u16_at(&self, i: usize) -> u16 {
        u16::from_le_bytes([self.b[i], self.b[i + 1]])
    }
    pub fn lfn_units(&self) -> [u16; 13] {
        let mut u = [0u16; 13];
        for i in 0..5 {
            u[i] = self.u16_at(1 + 2 * i);
        }
        for i in 0..6 {
            u[5 + i] = self.u16_at(14 + 2 * i);
        }
        for i in 0..2 {
            u[11 + i] = self.u16_at(28 + 2 * i);
        }
        u
    }
}

thread_local! {
    /// OEM code page used when a short name has to be shown as text (set per run from the session's converter)
    static OEM_CP437: std::cell::Cell<bool> = const { std::cell::Cell::new(false) };
}

pub fn set_oem(cp437: bool) {
    OEM_CP437.with(|c| c.set(cp437));
}

pub fn oem_dec(b: u8) -> char {
    if b < 0x80 {
        b as char
    } else if OEM_CP437.with(|c| c.get()) {
        crate::types::CP437_HIGH[usize::from(b - 0x80)]
    } else {
        '\u{FFFD}'
    }
}

pub fn sfn_checksum(name: &[u8]) -> u8 {
    let mut s: u8 = 0;
    for &b in &name[..11] {
        s = (if s & 1 != 0 { 0x80u8 } else { 0 }).wrapping_add(s >> 1).wrapping_add(b);
    }
    s
}

#[derive(Clone, Debug, PartialEq, Eq)]
pub enum LfnVerdict {
    /// no long-name slots precede the short entry
    None,
    /// a specification-valid run: exactly this name
    Valid(Vec<u16>),
    /// clearly broken (gap, missing first-slot flag, checksum mismatch, interrupted)
    Broken(String),
    /// structurally a run, but with junk after the terminator or similar: totality only
    Ambiguous(String),
}

#[derive(Clone, Debug)]
pub struct DEntry {
    pub lfn: LfnVerdict,
    pub sfn: [u8; 11],
    pub attr: u8,
    pub nt: u8,
    pub ctime_tenth: u8,
    pub ctime: u16,
    pub cdate: u16,
    pub adate: u16,
    pub mtime: u16,
    pub mdate: u16,
    pub first_cluster: u32,
    pub size: u32,
    /// absolute offsets of the slots forming this entry (LFN slots first, SFN last)
    pub slot_offs: Vec<u64>,
    pub sfn_off: u64,
    /// index of the first slot of this entry within the directory
    pub first_slot_idx: usize,
}

impl DEntry {
    pub fn is_dir(&self) -> bool {
        self.attr & 0x10 != 0
    }
    /// 8.3 display form, upper case as stored (0x05 lead byte -> 0xE5), bytes >= 0x80 kept
    pub fn short_display(&self) -> Vec<u8> {
        short_display(&self.sfn, 0)
    }
    /// display name as a UTF-16 sequence: long name if there is a valid one, else the short name with the NT
    /// lower-case flags applied, OEM bytes >= 0x80 mapped through `oem`
    pub fn name_units(&self, oem: &dyn Fn(u8) -> char) -> Vec<u16> {
        if let LfnVerdict::Valid(n) = &self.lfn {
            return n.clone();
        }
        let d = short_display(&self.sfn, self.nt);
        let mut out = Vec::new();
        for b in d {
            let ch = if b < 0x80 { b as char } else { oem(b) };
            let mut buf = [0u16; 2];
            out.extend_from_slice(ch.encode_utf16(&mut buf));
        }
        out
    }
    pub fn is_dot(&self) -> bool {
        &self.sfn == b".          "
    }
    pub fn is_dotdot(&self) -> bool {
        &self.sfn == b"..         "
    }
}

pub fn short_display(sfn: &[u8; 11], nt: u8) -> Vec<u8> {
    let mut base: Vec<u8> = sfn[..8].to_vec();
    while base.last() == Some(&b' ') {
        base.pop();
    }
    let mut ext: Vec<u8> = sfn[8..].to_vec();
    while ext.last() == Some(&b' ') {
        ext.pop();
    }
    if nt & 0x08 != 0 {
        base.make_ascii_lowercase();
    }
    if nt & 0x10 != 0 {
        ext.make_ascii_lowercase();
    }
    let mut out = base;
    if !ext.is_empty() {
        out.push(b'.');
        out.extend_from_slice(&ext);
    }
    if out.first() == Some(&0x05) {
        out[0] = 0xE5;
    }
    out
}

#[derive(Clone, Debug)]
pub struct DirInfo {
    /// 0 for the fixed root of FAT12/16
    pub first_cluster: u32,
    pub chain: Vec<u32>,
    pub slots: Vec<Slot>,
    pub entries: Vec<DEntry>,
    pub labels: Vec<usize>,
    /// index of the end marker, if any
    pub end_idx: Option<usize>,
    pub findings: Vec<Finding>,
    pub is_root: bool,
}

impl DirInfo {
    /// one character per slot: E end, d deleted, L lfn, V label, S sfn
    pub fn class_string(&self) -> String {
        self.slots
            .iter()
            .map(|s| match s.class() {
                SlotClass::End => 'E',
                SlotClass::Deleted => 'd',
                SlotClass::Lfn => 'L',
                SlotClass::Label => 'V',
                SlotClass::Sfn => 'S',
            })
            .collect()
    }
    pub fn capacity_slots(&self) -> usize {
        self.slots.len()
    }
    /// Slots a new entry of `k` slots would occupy according to first-fit over deleted runs / the tail;
    /// returns how many slots beyond the current capacity would be needed (0 = fits).
    pub fn overflow_for(&self, k: usize) -> usize {
        let mut run = 0usize;
        let mut i = 0usize;
        while i < self.slots.len() {
            match self.slots[i].class() {
                SlotClass::End => {
                    let start = i - run;
                    return (start + k).saturating_sub(self.slots.len());
                }
                SlotClass::Deleted => {
                    run += 1;
                    if run == k {
                        return 0;
                    }
                }
                _ => run = 0,
            }
            i += 1;
        }
        let start = self.slots.len() - run;
        (start + k).saturating_sub(self.slots.len())
    }
}

#[derive(Clone, Debug, PartialEq, Eq, PartialOrd, Ord)]
pub struct Finding {
    pub kind: &'static str,
    pub detail: String,
    /// path strings of the objects the finding is about (for the in-flux relaxation)
    pub subj: Vec<String>,
}

fn fnd(kind: &'static str, detail: String) -> Finding {
    Finding { kind, detail, subj: vec![] }
}

fn fnds(kind: &'static str, detail: String, subj: Vec<String>) -> Finding {
    Finding { kind, detail, subj }
}

#[derive(Clone, Debug)]
pub struct Obj {
    pub path: Vec<Vec<u16>>,
    pub is_dir: bool,
    pub first_cluster: u32,
    pub chain: Vec<u32>,
    pub size: u32,
    pub sfn_off: u64,
    pub parent: Option<usize>,
    /// index into `Parsed::dirs` when is_dir
    pub dir_idx: Option<usize>,
    pub entry: Option<DEntry>,
}

pub struct Parsed {
    pub geo: Geo,
    pub objs: Vec<Obj>,
    pub dirs: Vec<DirInfo>,
    /// cluster -> object index (objs); clusters on a chain of a live entry
    pub owner: BTreeMap<u32, usize>,
    pub free: u32,
    pub bad: u32,
    /// non-free, non-bad clusters not owned by any object
    pub lost: Vec<u32>,
    pub findings: Vec<Finding>,
}

/// Walk the chain starting at `first`. Returns the clusters and an optional finding.
pub fn chain(img: &Store, g: &Geo, first: u32, limit: u32) -> (Vec<u32>, Option<Finding>) {
    let mut out = Vec::new();
    let mut seen = BTreeSet::new();
    let mut c = first;
    loop {
        if c < 2 || c > g.max_cluster() {
            return (out, Some(fnd("out-of-range-link", format!("cluster {} (max {})", c, g.max_cluster()))));
        }
        if !seen.insert(c) {
            return (out, Some(fnd("cycle", format!("cluster {} revisited", c))));
        }
        out.push(c);
        if out.len() as u32 > limit {
            return (out, Some(fnd("cycle", "chain longer than the volume".into())));
        }
        let v = fat_val(img, g, c);
        if v >= g.eoc_min() {
            return (out, None);
        }
        if v == 0 {
            // the first cluster comes from a directory entry (which several operations update last); any later one from
            // an allocated table entry -- no single operation, however it is interrupted, leaves that behind
            let kind = if out.len() > 1 { "chain-link-to-free" } else { "link-to-free" };
            return (out, Some(fnd(kind, format!("cluster {} is marked free but on a chain", c))));
        }
        if v == g.bad_mark() {
            return (out, Some(fnd("link-to-bad", format!("cluster {} -> bad marker", c))));
        }
        c = v;
    }
}

fn read_slots(img: &Store, off: u64, bytes: u64, out: &mut Vec<Slot>) {
    let n = bytes / 32;
    let data = img.get(off, (n * 32) as usize);
    for i in 0..n as usize {
        let mut b = [0u8; 32];
        b.copy_from_slice(&data[i * 32..i * 32 + 32]);
        out.push(Slot { off: off + (i as u64) * 32, b });
    }
}

/// Decode the slots of one directory into entries (specification rules) and structural findings.
pub fn decode_slots(slots: &[Slot]) -> (Vec<DEntry>, Vec<usize>, Option<usize>, Vec<Finding>) {
    let mut entries = Vec::new();
    let mut labels = Vec::new();
    let mut findings = Vec::new();
    let mut end_idx = None;
    let mut run: Vec<usize> = Vec::new(); // indexes of pending LFN slots
    let mut i = 0usize;
    while i < slots.len() {
        let s = &slots[i];
        match s.class() {
            SlotClass::End => {
                end_idx = Some(i);
                break;
            }
            SlotClass::Deleted => {
                if !run.is_empty() {
                    findings.push(fnd("orphan-lfn", format!("{} LFN slot(s) before deleted slot at {:#x}", run.len(), s.off)));
                    run.clear();
                }
            }
            SlotClass::Lfn => run.push(i),
            SlotClass::Label => {
                if !run.is_empty() {
                    findings.push(fnd("orphan-lfn", format!("{} LFN slot(s) before label at {:#x}", run.len(), s.off)));
                    run.clear();
                }
                labels.push(i);
            }
            SlotClass::Sfn => {
                let mut sfn = [0u8; 11];
                sfn.copy_from_slice(&s.b[..11]);
                let verdict = judge_run(slots, &run, &sfn);
                if let Some(st) = run.iter().rposition(|j| slots[*j].b[0] & 0x40 != 0) {
                    if st > 0 {
                        findings.push(fnd("orphan-lfn", format!("{} stray LFN slot(s) before the run of the entry at {:#x}", st, s.off)));
                    }
                }
                let mut slot_offs: Vec<u64> = run.iter().map(|j| slots[*j].off).collect();
                slot_offs.push(s.off);
                let first_slot_idx = run.first().copied().unwrap_or(i);
                match &verdict {
                    LfnVerdict::Broken(r) => findings.push(fnd("lfn-broken", format!("{} at {:#x}", r, s.off))),
                    LfnVerdict::Ambiguous(r) => findings.push(fnd("lfn-malformed", format!("{} at {:#x}", r, s.off))),
                    _ => {}
                }
                entries.push(DEntry {
                    lfn: verdict,
                    sfn,
                    attr: s.b[11],
                    nt: s.b[12],
                    ctime_tenth: s.b[13],
                    ctime: s.u16_at(14),
                    cdate: s.u16_at(16),
                    adate: s.u16_at(18),
                    mtime: s.u16_at(22),
                    mdate: s.u16_at(24),
                    first_cluster: (u32::from(s.u16_at(20)) << 16) | u32::from(s.u16_at(26)),
                    size: u32::from_le_bytes([s.b[28], s.b[29], s.b[30], s.b[31]]),
                    slot_offs,
                    sfn_off: s.off,
                    first_slot_idx,
                });
                run.clear();
            }
        }
        i += 1;
    }
    if !run.is_empty() {
        findings.push(fnd("orphan-lfn", format!("{} trailing LFN slot(s)", run.len())));
    }
    if let Some(e) = end_idx {
        for (j, s) in slots.iter().enumerate().skip(e + 1) {
            if s.b[0] != 0 {
                findings.push(fnd("slot-after-end", format!("slot {} at {:#x} after end marker {}", j, s.off, e)));
                break;
            }
        }
    }
    (entries, labels, end_idx, findings)
}

/// Judge the LFN run (slot indexes, physical order) preceding the short entry `sfn`.
pub fn judge_run(slots: &[Slot], run: &[usize], sfn: &[u8; 11]) -> LfnVerdict {
    if run.is_empty() {
        return LfnVerdict::None;
    }
    // physical adjacency is guaranteed by the caller (run is cleared by any non-LFN slot).
    // The run that can belong to the short entry starts at the LAST slot carrying the last-entry flag; anything
    // before it is stray (orphaned) and makes the verdict "ambiguous" rather than "valid".
    let Some(start) = run.iter().rposition(|j| slots[*j].b[0] & 0x40 != 0) else {
        return LfnVerdict::Broken("no slot carries the last-entry flag".into());
    };
    if start > 0 {
        // a slot with the last-entry flag always starts a new run: the stray slots before it are orphans (reported
        // separately by decode_slots), the verdict is that of the run they precede
        return judge_run(slots, &run[start..], sfn);
    }
    let first = &slots[run[0]];
    let ord0 = first.b[0];
    let n = usize::from(ord0 & 0x3F);
    if n == 0 || n > 20 {
        return LfnVerdict::Broken(format!("order {} out of range", n));
    }
    if n != run.len() {
        return LfnVerdict::Broken(format!("run of {} slot(s) announces {}", run.len(), n));
    }
    let chk = sfn_checksum(sfn);
    let mut units: Vec<u16> = vec![0; n * 13];
    for (pos, j) in run.iter().enumerate() {
        let s = &slots[*j];
        let want = (n - pos) as u8;
        let ord = s.b[0];
        if pos > 0 && ord & 0x40 != 0 {
            return LfnVerdict::Broken("last-entry flag inside the run".into());
        }
        if ord & 0x3F != want {
            return LfnVerdict::Broken(format!("order gap: slot {} has {:#x}, expected {}", pos, ord, want));
        }
        if s.b[13] != chk {
            return LfnVerdict::Broken(format!("checksum {:#x} differs from the short name's {:#x}", s.b[13], chk));
        }
        let u = s.lfn_units();
        units[(want as usize - 1) * 13..(want as usize) * 13].copy_from_slice(&u);
    }
    // stray type / cluster bytes make the run formally odd
    let mut odd = false;
    for j in run {
        let s = &slots[*j];
        if s.b[12] != 0 || s.u16_at(26) != 0 || s.b[11] != 0x0F {
            odd = true;
        }
    }
    // terminator and padding
    let mut len = units.len();
    if let Some(p) = units.iter().position(|u| *u == 0) {
        len = p;
        if units[p + 1..].iter().any(|u| *u != 0xFFFF) {
            return LfnVerdict::Ambiguous("junk after the NUL terminator".into());
        }
        if p <= (n - 1) * 13 {
            return LfnVerdict::Ambiguous("terminator before the last slot".into());
        }
    }
    if len == 0 {
        return LfnVerdict::Ambiguous("empty long name".into());
    }
    if units[..len].iter().any(|u| *u == 0xFFFF) {
        return LfnVerdict::Ambiguous("0xFFFF inside the name".into());
    }
    if len > 255 {
        return LfnVerdict::Ambiguous("more than 255 units".into());
    }
    if odd {
        return LfnVerdict::Ambiguous("stray type/cluster/attribute bytes".into());
    }
    units.truncate(len);
    LfnVerdict::Valid(units)
}

pub fn parse(img: &Store) -> Result<Parsed, String> {
    let g = geo(img)?;
    parse_with(img, g)
}

pub fn parse_with(img: &Store, g: Geo) -> Result<Parsed, String> {
    let mut p = Parsed { geo: g.clone(), objs: vec![], dirs: vec![], owner: BTreeMap::new(), free: 0, bad: 0, lost: vec![], findings: vec![] };
    // root object
    let root_chain = if g.fat_bits == 32 {
        let (ch, f) = chain(img, &g, g.root_cluster, g.n_clusters);
        if let Some(f) = f {
            p.findings.push(fnds(f.kind, format!("root: {}", f.detail), vec!["/".into()]));
        }
        ch
    } else {
        vec![]
    };
    p.objs.push(Obj {
        path: vec![],
        is_dir: true,
        first_cluster: g.root_cluster,
        chain: root_chain,
        size: 0,
        sfn_off: 0,
        parent: None,
        dir_idx: None,
        entry: None,
    });
    let mut queue = vec![0usize];
    let mut visited_dirs: BTreeSet<u32> = BTreeSet::new();
    if g.fat_bits == 32 {
        visited_dirs.insert(g.root_cluster);
    }
    while let Some(oi) = queue.pop() {
        // claim clusters
        let chain_c = p.objs[oi].chain.clone();
        for c in &chain_c {
            if let Some(prev) = p.owner.insert(*c, oi) {
                if prev != oi {
                    // two entries naming one and the same chain, as opposed to two different chains running into each other
                    let kind = if p.objs[prev].first_cluster == p.objs[oi].first_cluster { "duplicate-entry" } else { "cross-link" };
                    p.findings.push(fnds(
                        kind,
                        format!("cluster {} claimed by {} and {}", c, path_str(&p.objs[prev].path), path_str(&p.objs[oi].path)),
                        vec![path_str(&p.objs[prev].path), path_str(&p.objs[oi].path)],
                    ));
                }
            }
        }
        if !p.objs[oi].is_dir {
            continue;
        }
        let is_root = oi == 0;
        let mut slots = Vec::new();
        if is_root && g.fat_bits != 32 {
            read_slots(img, g.root_off, u64::from(g.root_entries) * 32, &mut slots);
        } else {
            for c in &chain_c {
                read_slots(img, g.cluster_off(*c), g.cluster_bytes, &mut slots);
            }
        }
        let (mut entries, labels, end_idx, mut findings) = decode_slots(&slots);
        if g.fat_bits != 32 {
            // bytes 20..22 are the high word of the cluster number on FAT32 only; elsewhere other systems keep their own
            // data there (extended-attribute handle) and it is not part of the cluster number
            for e in entries.iter_mut() {
                e.first_cluster &= 0xFFFF;
            }
        }
        let dpath = p.objs[oi].path.clone();
        for f in &mut findings {
            f.detail = format!("{}: {}", path_str(&dpath), f.detail);
        }
        let parent_first = p.objs[oi].parent.map(|pi| if pi == 0 { 0 } else { p.objs[pi].first_cluster });
        // dot entries
        if !is_root {
            let ok_dot = entries.first().map_or(false, |e| {
                e.is_dot() && e.is_dir() && e.first_cluster == p.objs[oi].first_cluster && e.first_slot_idx == 0
            });
            if !ok_dot {
                findings.push(fnd("dot-wrong", format!("{}: first entry is not '.' -> own cluster", path_str(&dpath))));
            }
            let ok_dd = entries.get(1).map_or(false, |e| {
                e.is_dotdot() && e.is_dir() && Some(e.first_cluster) == parent_first && e.first_slot_idx == 1
            });
            if !ok_dd {
                findings.push(fnd(
                    "dotdot-wrong",
                    format!(
                        "{}: second entry is not '..' -> parent cluster {:?} (found {:?})",
                        path_str(&dpath),
                        parent_first,
                        entries.get(1).map(|e| e.first_cluster)
                    ),
                ));
            }
        }
        // duplicates
        let mut seen_short: BTreeSet<[u8; 11]> = BTreeSet::new();
        let mut seen_long: BTreeSet<Vec<u32>> = BTreeSet::new();
        for e in &entries {
            if !seen_short.insert(e.sfn) {
                findings.push(fnd("dup-short", format!("{}: short name {:?} twice", path_str(&dpath), String::from_utf8_lossy(&e.sfn))));
            }
            if let LfnVerdict::Valid(n) = &e.lfn {
                let folded = fold_units(n);
                if !seen_long.insert(folded) {
                    findings.push(fnd("dup-long", format!("{}: long name {} twice", path_str(&dpath), String::from_utf16_lossy(n))));
                }
            }
        }
        let di = p.dirs.len();
        p.objs[oi].dir_idx = Some(di);
        // children
        for (ei, e) in entries.iter().enumerate() {
            if !is_root && ei < 2 && (e.is_dot() || e.is_dotdot()) {
                continue;
            }
            if e.is_dot() || e.is_dotdot() {
                findings.push(fnd("stray-dot-entry", format!("{}: dot entry at index {}", path_str(&dpath), ei)));
                continue;
            }
            let mut path = dpath.clone();
            path.push(e.name_units(&oem_dec));
            let mut ch = vec![];
            if e.first_cluster != 0 {
                let (c, f) = chain(img, &g, e.first_cluster, g.n_clusters);
                ch = c;
                if let Some(f) = f {
                    findings.push(fnds(f.kind, format!("{}: {}", path_str(&path), f.detail), vec![path_str(&path)]));
                }
            }
            let is_dir = e.is_dir();
            if is_dir {
                if e.first_cluster == 0 {
                    findings.push(fnd("dir-without-cluster", path_str(&path)));
                }
            } else {
                let need = (u64::from(e.size) + g.cluster_bytes - 1) / g.cluster_bytes;
                if e.size == 0 && e.first_cluster != 0 {
                    findings.push(fnds("empty-file-with-cluster", format!("{} first={}", path_str(&path), e.first_cluster), vec![path_str(&path)]));
                } else if need != ch.len() as u64 {
                    findings.push(fnds(
                        "size-chain-mismatch",
                        format!("{}: size {} needs {} cluster(s), chain has {}", path_str(&path), e.size, need, ch.len()),
                        vec![path_str(&path)],
                    ));
                }
            }
            let ci = p.objs.len();
            p.objs.push(Obj {
                path,
                is_dir,
                first_cluster: e.first_cluster,
                chain: ch,
                size: e.size,
                sfn_off: e.sfn_off,
                parent: Some(oi),
                dir_idx: None,
                entry: Some(e.clone()),
            });
            if is_dir && e.first_cluster != 0 {
                if visited_dirs.insert(e.first_cluster) {
                    queue.push(ci);
                } else {
                    findings.push(fnd("dir-cross-link", format!("directory cluster {} reachable twice", e.first_cluster)));
                }
            } else {
                queue.push(ci);
            }
            if p.objs.len() > 200_000 {
                return Err("too many objects".into());
            }
        }
        p.dirs.push(DirInfo {
            first_cluster: if is_root && g.fat_bits != 32 { 0 } else { p.objs[oi].first_cluster },
            chain: chain_c,
            slots,
            entries,
            labels,
            end_idx,
            findings: findings.clone(),
            is_root,
        });
        p.findings.extend(findings);
    }
    // allocation scan (sparse-aware for FAT32)
    let mut nonzero: u32 = 0;
    let mut bad: u32 = 0;
    let mut lost = vec![];
    let mut visit = |c: u32, v: u32, p: &mut Parsed| {
        if v == 0 {
            return;
        }
        nonzero += 1;
        if v == g.bad_mark() {
            bad += 1;
            if p.owner.contains_key(&c) {
                p.findings.push(fnd("bad-cluster-on-chain", format!("cluster {}", c)));
            }
            return;
        }
        if !p.owner.contains_key(&c) {
            lost.push(c);
            // chains that no entry refers to (yet: a file being written keeps its first cluster in memory until flush)
            // obey the same rule as the others: an allocated entry never links to a free cluster
            if v >= 2 && v <= g.max_cluster() && v < g.eoc_min() && fat_val(img, &g, v) == 0 {
                p.findings.push(fnd("chain-link-to-free", format!("cluster {} (on a chain no entry refers to) links to cluster {}, which is marked free", c, v)));
            }
        }
    };
    if g.fat_bits == 32 {
        let base = g.fat_copy_off(g.active_fat());
        let end = base + (u64::from(g.n_clusters) + 2) * 4;
        for pno in img.resident_in(base, end) {
            let pstart = (pno * crate::disk::PAGE).max(base);
            let pend = ((pno + 1) * crate::disk::PAGE).min(end);
            let buf = img.get(pstart, (pend - pstart) as usize);
            // entries are 4-aligned relative to base (base is sector aligned, page is 4096)
            let mut o = (4 - ((pstart - base) % 4)) % 4;
            while o + 4 <= buf.len() as u64 {
                let v = u32::from_le_bytes([buf[o as usize], buf[o as usize + 1], buf[o as usize + 2], buf[o as usize + 3]]) & 0x0FFF_FFFF;
                let c = ((pstart - base + o) / 4) as u32;
                if c >= 2 {
                    visit(c, v, &mut p);
                }
                o += 4;
            }
        }
    } else {
        for c in 2..g.n_clusters + 2 {
            let v = fat_val(img, &g, c);
            visit(c, v, &mut p);
        }
    }
    p.free = g.n_clusters - nonzero;
    p.bad = bad;
    if !lost.is_empty() {
        p.findings.push(fnd("lost-cluster", format!("{} cluster(s) allocated but unreferenced, first {:?}", lost.len(), &lost[..lost.len().min(4)])));
    }
    p.lost = lost;
    Ok(p)
}

pub fn path_str(path: &[Vec<u16>]) -> String {
    let mut s = String::from("/");
    for (i, c) in path.iter().enumerate() {
        if i > 0 {
            s.push('/');
        }
        s.push_str(&String::from_utf16_lossy(c));
    }
    s
}

/// Unicode case folding used for duplicate detection: upper-case expansion of every char.
pub fn fold_units(u: &[u16]) -> Vec<u32> {
    let mut out = vec![];
    for r in char::decode_utf16(u.iter().copied()) {
        match r {
            Ok(c) => out.extend(c.to_uppercase().map(|x| x as u32)),
            Err(e) => out.push(0x11_0000 + u32::from(e.unpaired_surrogate())),
        }
    }
    out
}

impl Parsed {
    pub fn file_content(&self, img: &Store, oi: usize) -> Vec<u8> {
        let o = &self.objs[oi];
        let mut out = Vec::with_capacity(o.size as usize);
        let mut left = u64::from(o.size);
        for c in &o.chain {
            if left == 0 {
                break;
            }
            let n = left.min(self.geo.cluster_bytes);
            out.extend_from_slice(&img.get(self.geo.cluster_off(*c), n as usize));
            left -= n;
        }
        out
    }
    pub fn find(&self, path: &[Vec<u16>]) -> Option<usize> {
        self.objs.iter().position(|o| o.path == path)
    }
    pub fn dir_of(&self, oi: usize) -> Option<&DirInfo> {
        self.objs[oi].dir_idx.map(|d| &self.dirs[d])
    }
    pub fn has(&self, kind: &str) -> bool {
        self.findings.iter().any(|f| f.kind == kind)
    }
    /// which region does absolute byte `off` belong to
    pub fn region(&self, img: &Store, off: u64) -> Region {
        let g = &self.geo;
        if off >= g.vol_bytes {
            return Region::Beyond;
        }
        if off < g.fat_off {
            if off == g.status_off {
                return Region::StatusByte;
            }
            let sec = off / u64::from(g.bps);
            if g.fat_bits == 32 && sec == u64::from(g.fsinfo_sector) && off % u64::from(g.bps) < 512 {
                return Region::FsInfo;
            }
            if sec == 0 {
                return Region::Boot;
            }
            if g.fat_bits == 32 && sec == u64::from(g.backup_sector) {
                return Region::BackupBoot;
            }
            return Region::ReservedOther;
        }
        if off < g.root_off {
            return Region::Fat(((off - g.fat_off) / g.fat_bytes) as u32);
        }
        if off < g.data_off {
            if off < g.root_off + u64::from(g.root_entries) * 32 {
                return Region::FixedRoot;
            }
            return Region::RootSlack;
        }
        let c = ((off - g.data_off) / g.cluster_bytes) as u64 + 2;
        if c > u64::from(g.max_cluster()) {
            return Region::Slack;
        }
        let c = c as u32;
        if fat_val(img, g, c) == 0 {
            // also covers a stale entry of an in-flux file that still points at an already freed chain
            return Region::FreeCluster(c);
        }
        match self.owner.get(&c) {
            Some(o) => Region::Cluster(c, Some(*o)),
            None => {
                let v = fat_val(img, g, c);
                if v == 0 {
                    Region::FreeCluster(c)
                } else if v == g.bad_mark() {
                    Region::BadCluster(c)
                } else {
                    Region::Cluster(c, None)
                }
            }
        }
    }
}

#[derive(Clone, Debug, PartialEq, Eq)]
pub enum Region {
    Boot,
    StatusByte,
    FsInfo,
    BackupBoot,
    ReservedOther,
    Fat(u32),
    FixedRoot,
    RootSlack,
    /// cluster owned by object index (None: allocated but unreferenced)
    Cluster(u32, Option<usize>),
    FreeCluster(u32),
    BadCluster(u32),
    Slack,
    Beyond,
}
