//! C07: mounting is total. `corrupt_at_rest` faults on the boot sector and the FS-info sector of valid
//! FAT12/16/32 volumes, then a guarded mount + first use; accepted volumes must be coherent by the
//! independent predicate and agree with it on width / cluster size / cluster count.
use crate::disk::{DiskState, FaultPlan, LogMode, SimDisk, Store};
use crate::engine::{guarded, viol, Guarded};
use crate::refdec;
use crate::rng::Rng;
use crate::runner::{Batch, RunOutcome};
use crate::types::*;
use serde_json::json;
use std::cell::RefCell;
use std::rc::Rc;

/// (offset, length, name)
pub const FIELDS_COMMON: &[(u64, usize, &str)] = &[
    (11, 2, "bytes_per_sector"),
    (13, 1, "sectors_per_cluster"),
    (14, 2, "reserved_sectors"),
    (16, 1, "fats"),
    (17, 2, "root_entries"),
    (19, 2, "total_sectors_16"),
    (21, 1, "media"),
    (22, 2, "sectors_per_fat_16"),
    (24, 2, "sectors_per_track"),
    (26, 2, "heads"),
    (28, 4, "hidden_sectors"),
    (32, 4, "total_sectors_32"),
];
pub const FIELDS_EXT32: &[(u64, usize, &str)] = &[
    (36, 4, "sectors_per_fat_32"),
    (40, 2, "extended_flags"),
    (42, 2, "fs_version"),
    (44, 4, "root_dir_first_cluster"),
    (48, 2, "fs_info_sector"),
    (50, 2, "backup_boot_sector"),
    (64, 1, "drive_num"),
    (65, 1, "reserved_1(status)"),
    (66, 1, "ext_sig"),
    (510, 2, "boot_signature"),
    (0, 1, "jump"),
];
pub const FIELDS_EXT16: &[(u64, usize, &str)] = &[(36, 1, "drive_num"), (37, 1, "reserved_1(status)"), (38, 1, "ext_sig"), (510, 2, "boot_signature"), (0, 1, "jump"), (36, 4, "bytes 36..40 (FAT32 sectors_per_fat if layout flips)"), (44, 4, "bytes 44..48 (FAT32 root cluster if layout flips)")];

pub fn fields(base: usize) -> Vec<(u64, usize, &'static str)> {
    let mut v = FIELDS_COMMON.to_vec();
    v.extend_from_slice(if base == 2 { FIELDS_EXT32 } else { FIELDS_EXT16 });
    v
}

thread_local! {
    static BASES: RefCell<Option<Vec<Store>>> = const { RefCell::new(None) };
}

fn build_bases() -> Vec<Store> {
    let mut out = vec![];
    let specs: [(u8, u16, u8, u32); 3] = [(12, 512, 1, 2000), (16, 512, 2, 12000), (32, 512, 1, 67000)];
    for (fat, bps, spc, total) in specs {
        let v = VolCfg { source: VolSource::Format, fat, bps, spc, fats: 2, root_entries: 64, total_sectors: total, extra_sectors: 0, ballast_keep: None, ballast_mode: 0, fsinfo_mode: 0, hint: None, status: 0, label: true, tail_taken: 0, dirty_medium: false };
        let store = crate::vol::format_store(&v).expect("harness: base volume");
        // populate a little through the library
        let st = Rc::new(RefCell::new(DiskState::new(store)));
        st.borrow_mut().log_mode = LogMode::Off;
        {
            let clock = crate::clock::SimClock::new(crate::clock::MIN_STAMP);
            let opts = fatfs::FsOptions::new().time_provider(clock).oem_cp_converter(SimOcc(Oem::Lossy));
            let fs = Fs::new(SimDisk::new(st.clone()), opts).expect("harness: base mount");
            {
                use fatfs::Write;
                let root = fs.root_dir();
                let d = root.create_dir("some dir").unwrap();
                let mut f = d.create_file("a long file name.txt").unwrap();
                f.write_all(&[0x5A; 3000]).unwrap();
                let mut g = root.create_file("ROOT.BIN").unwrap();
                g.write_all(&[1; 700]).unwrap();
            }
            fs.unmount().unwrap();
        }
        let st = Rc::try_unwrap(st).ok().unwrap().into_inner();
        out.push(st.store);
    }
    out
}

pub fn base(i: usize) -> Store {
    BASES.with(|b| {
        let mut b = b.borrow_mut();
        if b.is_none() {
            *b = Some(build_bases());
        }
        b.as_ref().unwrap()[i].clone()
    })
}

pub enum Verdict {
    Rejected,
    Accepted,
    Bad(&'static str, String),
}

/// mount the (corrupted) image and use it; compare with the independent predicate
pub fn try_mount(img: &Store, strict: bool) -> Verdict {
    let st = Rc::new(RefCell::new(DiskState::new(img.clone())));
    st.borrow_mut().log_mode = LogMode::Off;
    // a scan over the whole device in the smallest units the library uses (2-byte reads) is legitimate work, not a hang
    st.borrow_mut().arm(FaultPlan { budget: img.len / 2 + 2_000_000, ..Default::default() });
    let clock = crate::clock::SimClock::new(crate::clock::MIN_STAMP);
    let opts = fatfs::FsOptions::new().time_provider(clock).oem_cp_converter(SimOcc(Oem::Lossy)).strict(strict);
    let st2 = st.clone();
    let r = guarded(move || -> Result<(u32, u32, Option<u32>), FErr> {
        let fs = Fs::new(SimDisk::new(st2), opts)?;
        let ft = match fs.fat_type() {
            fatfs::FatType::Fat12 => 12,
            fatfs::FatType::Fat16 => 16,
            fatfs::FatType::Fat32 => 32,
        };
        let cs = fs.cluster_size();
        let total = fs.stats().ok().map(|s| s.total_clusters());
        let _ = fs.read_status_flags();
        let _ = fs.volume_label_as_bytes().len();
        let _ = fs.volume_id();
        let mut n = 0;
        for e in fs.root_dir().iter() {
            match e {
                Ok(e) => {
                    let _ = e.short_file_name_as_bytes().len();
                    let _ = e.len();
                    let _ = e.is_dir();
                }
                Err(_) => break,
            }
            n += 1;
            if n > 100_000 {
                break;
            }
        }
        let _ = fs.read_volume_label_from_root_dir_as_bytes();
        drop(fs);
        Ok((ft, cs, total))
    });
    match r {
        Guarded::Panic(m) => Verdict::Bad("panic", m),
        Guarded::Hang => Verdict::Bad("hang", "device-call budget exhausted during mount / first use".into()),
        Guarded::Done(Err(_)) => Verdict::Rejected,
        Guarded::Done(Ok((ft, cs, total))) => {
            let raw = refdec::raw_bpb(img);
            match refdec::coherent(&raw) {
                Err(e) => Verdict::Bad("incoherent-volume-accepted", format!("{} (library: FAT{}, cluster {}, {:?} clusters)", e, ft, cs, total)),
                Ok(g) => {
                    if g.fat_bits != ft || g.cluster_bytes != u64::from(cs) || total.map_or(false, |t| t != g.n_clusters) {
                        Verdict::Bad(
                            "geometry-differs",
                            format!("library FAT{} cluster {} clusters {:?}; independent parse FAT{} cluster {} clusters {}", ft, cs, total, g.fat_bits, g.cluster_bytes, g.n_clusters),
                        )
                    } else {
                        Verdict::Accepted
                    }
                }
            }
        }
    }
}

/// values just below / at / just above every quantity the volume's own geometry defines (cluster count,
/// last cluster number, sector counts, region starts): the places where a range check is off by one
pub fn geometry_edges(img: &Store) -> Vec<u64> {
    let mut v = vec![];
    if let Ok(g) = refdec::coherent(&refdec::raw_bpb(img)) {
        let raw = refdec::raw_bpb(img);
        let qs = [
            u64::from(g.n_clusters),
            u64::from(g.n_clusters) + 2,
            u64::from(raw.tot32),
            u64::from(raw.tot16),
            u64::from(raw.fatsz32),
            u64::from(raw.fatsz16),
            g.data_off / u64::from(g.bps),
            u64::from(g.reserved),
            img.len / u64::from(g.bps),
        ];
        for q in qs {
            for d in -3i64..=3 {
                let x = q as i64 + d;
                if (0..=i64::from(u32::MAX)).contains(&x) {
                    v.push(x as u64);
                }
            }
        }
    }
    v.sort_unstable();
    v.dedup();
    v
}

fn poke(img: &mut Store, off: u64, len: usize, val: u64) {
    let b = val.to_le_bytes();
    img.write_at(off, &b[..len]);
}

fn record(o: &mut RunOutcome, v: Verdict, kind: &str, seed: u64, what: String) -> bool {
    o.evaluations += 1;
    match v {
        Verdict::Rejected => *o.counters.entry("rejected".into()).or_insert(0) += 1,
        Verdict::Accepted => *o.counters.entry("accepted".into()).or_insert(0) += 1,
        Verdict::Bad(class, detail) => {
            let vv = viol("C07", class, format!("{}: {}", what, detail), 0);
            o.violation = Some((vv.clone(), Replay { property: "C07".into(), kind: kind.into(), seed, cfg: crate::c06::dummy_cfg(), steps: vec![], violation: Some(vv) }));
            return false;
        }
    }
    true
}

/// item = base * nfields * 256 + field * 256 + chunk (chunk of 256 values of a 16-bit field, or the whole 8-bit field)
pub fn single_field(item: u64) -> RunOutcome {
    let mut o = RunOutcome::empty();
    o.evaluations = 0;
    let chunk = item % 256;
    let rest = item / 256;
    let b = (rest / 32) as usize;
    let fi = (rest % 32) as usize;
    if b > 2 {
        return o;
    }
    let fl = fields(b);
    if fi >= fl.len() {
        return o;
    }
    let (off, len, name) = fl[fi];
    let basei = base(b);
    let vals: Vec<u64> = match len {
        1 => {
            if chunk != 0 {
                return o;
            }
            (0..256).collect()
        }
        2 => (chunk * 256..chunk * 256 + 256).collect(),
        _ => {
            // 32-bit fields: boundaries and a deterministic pseudo-random sample, spread over the chunks
            let mut r = Rng::new(item ^ 0xC07);
            let mut v: Vec<u64> = vec![];
            if chunk < 33 {
                let p = 1u64 << chunk.min(32);
                for d in [-1i64, 0, 1] {
                    let x = p as i64 + d;
                    if (0..=i64::from(u32::MAX)).contains(&x) {
                        v.push(x as u64);
                    }
                }
            }
            for _ in 0..40 {
                v.push(r.next_u64() & 0xFFFF_FFFF);
                v.push(r.below(200_000));
            }
            if chunk == 40 {
                v.extend(geometry_edges(&basei));
            }
            v
        }
    };
    // 16-bit and 8-bit fields are enumerated completely, so the geometry-derived edges are already among them
    for val in vals {
        for strict in [true, false] {
            if !strict && off != 510 && off != 0 && val % 7 != 0 {
                continue;
            }
            let mut img = basei.clone();
            poke(&mut img, off, len, val);
            let v = try_mount(&img, strict);
            o.distinct.push(crate::rng::hash_bytes(val, format!("{}:{}:{}", b, fi, strict).as_bytes()));
            if !record(&mut o, v, "c07-single", item, format!("base FAT{} field {} = {:#x} strict={}", [12, 16, 32][b], name, val, strict)) {
                return o;
            }
        }
    }
    o.sample = Some(json!({"base": format!("FAT{}", [12, 16, 32][b]), "field": name, "values_from": chunk * 256}));
    o
}

pub fn combos(seed: u64) -> RunOutcome {
    let mut r = Rng::new(seed);
    let mut o = RunOutcome::empty();
    o.evaluations = 0;
    // the unmodified bases must mount
    for b in 0..3 {
        match try_mount(&base(b), true) {
            Verdict::Accepted => {}
            _ => {
                let vv = viol("C07", "valid-volume-rejected", format!("unmodified FAT{} base volume", [12, 16, 32][b]), 0);
                o.violation = Some((vv.clone(), Replay { property: "C07".into(), kind: "c07-combos".into(), seed, cfg: crate::c06::dummy_cfg(), steps: vec![], violation: Some(vv) }));
                return o;
            }
        }
    }
    for _ in 0..400 {
        let b = r.usize_below(3);
        let fl = fields(b);
        let mut img = base(b);
        let mut what = format!("base FAT{}", [12, 16, 32][b]);
        let strict = r.chance(3, 4);
        match r.below(10) {
            0..=5 => {
                let n = r.range(2, 6);
                for _ in 0..n {
                    let (off, len, name) = fl[r.usize_below(fl.len())];
                    let val = match r.below(6) {
                        0 => 0,
                        1 => 1,
                        2 => (1u64 << r.below(32)) + r.range(0, 2) - 1,
                        3 => 0xFFFF_FFFF,
                        4 => r.below(300),
                        _ => r.next_u64(),
                    } & if len >= 8 { u64::MAX } else { (1u64 << (8 * len)) - 1 };
                    poke(&mut img, off, len, val);
                    what.push_str(&format!(" {}={:#x}", name, val));
                }
            }
            6 | 7 => {
                // FS-info sector (FAT32) or arbitrary bytes in the BPB area
                if b == 2 {
                    let fo = 512u64;
                    let (off, name) = *r.pick(&[(0u64, "lead_sig"), (484, "struc_sig"), (488, "free_count"), (492, "next_free"), (508, "trail_sig")]);
                    let val = match r.below(6) {
                        0 => 0,
                        1 => 1,
                        2 => 0xFFFF_FFFF,
                        3 => 67_000 + r.below(10),
                        4 => r.below(70_000),
                        _ => r.next_u64() & 0xFFFF_FFFF,
                    };
                    poke(&mut img, fo + off, 4, val);
                    what.push_str(&format!(" fsinfo.{}={:#x}", name, val));
                    if r.chance(1, 3) {
                        let (off2, len2, name2) = fl[r.usize_below(fl.len())];
                        let v2 = r.next_u64() & ((1u64 << (8 * len2)) - 1);
                        poke(&mut img, off2, len2, v2);
                        what.push_str(&format!(" {}={:#x}", name2, v2));
                    }
                } else {
                    let n = r.range(1, 8);
                    for _ in 0..n {
                        let off = r.range(0, 89);
                        let v = r.below(256);
                        poke(&mut img, off, 1, v);
                        what.push_str(&format!(" byte[{}]={:#x}", off, v));
                    }
                }
            }
            8 => {
                // random garbage over the whole BPB
                let mut g = vec![0u8; 79];
                r.fill(&mut g);
                img.write_at(11, &g);
                what.push_str(" bytes 11..90 random");
            }
            _ => {
                // truncated device: the image ends inside the metadata
                let cut = r.range(0, 4096);
                let mut s2 = Store::new(cut);
                let data = img.get(0, cut as usize);
                s2.write_at(0, &data);
                img = s2;
                what.push_str(&format!(" device truncated to {} bytes", cut));
            }
        }
        let v = try_mount(&img, strict);
        o.distinct.push(crate::rng::hash_bytes(img.fingerprint(), b"combo"));
        if !record(&mut o, v, "c07-combos", seed, format!("{} strict={}", what, strict)) {
            return o;
        }
    }
    o
}

pub fn replay(kind: &str, seed: u64) -> Option<RunOutcome> {
    match kind {
        "c07-single" => Some(single_field(seed)),
        "c07-combos" => Some(combos(seed)),
        _ => None,
    }
}

pub fn batches(tier: &str, seed: u64) -> Vec<Batch<'static>> {
    let quick = tier == "quick";
    let n_single = 3 * 32 * 256;
    let mut v: Vec<Batch<'static>> = vec![];
    v.push(Batch { name: "single BPB field through ALL its values (8- and 16-bit fields exhaustively; 32-bit: boundaries + sample)".into(), runs: n_single, f: Box::new(single_field) });
    let n_combo = if quick { 6000u64 } else { 300_000 };
    v.push(Batch { name: "seeded combinations of 2-6 fields, FS-info fields, random BPB bytes, truncated devices".into(), runs: n_combo, f: Box::new(move |i| combos(crate::rng::run_seed(seed, 31, i))) });
    v
}
