//! C02 at the 4 GiB edge: a file of almost 2^32 bytes on a sparse 8 GiB FAT32 SimDisk (its chain is poked into
//! the FAT, only a few marker bytes exist), driven through seek / read / write / truncate around the
//! MAX_FILE_SIZE clipping, with a sparse byte model.
use crate::disk::{DiskState, FaultPlan, LogMode, SimDisk, Store};
use crate::engine::{guarded, viol, Guarded};
use crate::refdec;
use crate::rng::Rng;
use crate::runner::{Batch, RunOutcome};
use crate::types::*;
use fatfs::{Read, Seek, SeekFrom, Write};
use serde_json::json;
use std::cell::RefCell;
use std::collections::BTreeMap;
use std::rc::Rc;

thread_local! {
    static BASE: RefCell<Option<(Store, u32, u64)>> = const { RefCell::new(None) };
}

const CLUSTER: u64 = 4096;

/// 8 GiB FAT32 volume with one file "big.bin" of `size` bytes whose chain is clusters first..first+k-1
fn base() -> (Store, u32, u64) {
    BASE.with(|b| {
        let mut b = b.borrow_mut();
        if b.is_none() {
            let v = VolCfg { source: VolSource::Format, fat: 32, bps: 512, spc: 8, fats: 1, root_entries: 512, total_sectors: 16_777_216, extra_sectors: 0, ballast_keep: None, ballast_mode: 0, fsinfo_mode: 0, hint: None, status: 0, label: false, tail_taken: 0, dirty_medium: false };
            let store = crate::vol::format_store(&v).expect("harness: c02x volume");
            let st = Rc::new(RefCell::new(DiskState::new(store)));
            st.borrow_mut().log_mode = LogMode::Off;
            {
                let clock = crate::clock::SimClock::new(crate::clock::MIN_STAMP);
                let opts = fatfs::FsOptions::new().time_provider(clock).oem_cp_converter(SimOcc(Oem::Lossy));
                let fs = Fs::new(SimDisk::new(st.clone()), opts).expect("harness: c02x mount");
                fs.root_dir().create_file("big.bin").expect("harness: c02x create");
                fs.unmount().expect("harness: c02x unmount");
            }
            let mut img = Rc::try_unwrap(st).ok().unwrap().into_inner().store;
            let g = refdec::geo(&img).expect("harness: c02x geo");
            let size: u64 = 0xFFFF_E000 + 123; // a bit under 4 GiB, inside a cluster
            let k = ((size + CLUSTER - 1) / CLUSTER) as u32;
            let first = 10u32;
            for i in 0..k {
                let c = first + i;
                let val = if i + 1 < k { c + 1 } else { 0x0FFF_FFFF };
                img.put_u32(g.fat_copy_off(0) + u64::from(c) * 4, val);
            }
            // directory entry: find the short entry of big.bin in the root cluster
            let p = refdec::parse(&img).expect("harness: c02x parse");
            let oi = p.find(&["big.bin".encode_utf16().collect()]).expect("harness: c02x entry");
            let off = p.objs[oi].sfn_off;
            img.put_u16(off + 20, (first >> 16) as u16);
            img.put_u16(off + 26, first as u16);
            img.put_u32(off + 28, size as u32);
            let fo = u64::from(g.fsinfo_sector) * 512;
            let cnt = img.u32_at(fo + 488);
            img.put_u32(fo + 488, cnt - k);
            img.put_u32(fo + 492, first + k);
            *b = Some((img, first, size));
        }
        let (s, f, z) = b.as_ref().unwrap();
        (s.clone(), *f, *z)
    })
}

/// sparse expected content: explicit bytes at offsets, everything else 0
struct Sparse {
    bytes: BTreeMap<u64, u8>,
    size: u64,
}

impl Sparse {
    fn get(&self, off: u64) -> u8 {
        *self.bytes.get(&off).unwrap_or(&0)
    }
}

pub fn run(seed: u64) -> RunOutcome {
    let mut r = Rng::new(seed);
    let mut o = RunOutcome::empty();
    o.evaluations = 0;
    let (mut img, first, size0) = base();
    let g = refdec::geo(&img).unwrap();
    let mut model = Sparse { bytes: BTreeMap::new(), size: size0 };
    // markers straight into the data clusters (independent 64-bit geometry)
    for _ in 0..40 {
        let off = match r.below(4) {
            0 => r.below(size0),
            1 => size0 - 1 - r.below(5000),
            2 => (r.below(size0 / CLUSTER)) * CLUSTER + r.below(3),
            _ => (1u64 << 31) + r.below(10_000) - 5000,
        };
        let val = 1 + r.below(255) as u8;
        let c = first + (off / CLUSTER) as u32;
        img.put_u8(g.cluster_off(c) + off % CLUSTER, val);
        model.bytes.insert(off, val);
    }
    let st = Rc::new(RefCell::new(DiskState::new(img)));
    st.borrow_mut().log_mode = LogMode::Off;
    st.borrow_mut().arm(FaultPlan { budget: 400_000_000, ..Default::default() });
    let clock = crate::clock::SimClock::new(crate::clock::MIN_STAMP);
    let opts = fatfs::FsOptions::new().time_provider(clock).oem_cp_converter(SimOcc(Oem::Lossy));
    let mut script: Vec<String> = vec![];
    let st2 = st.clone();
    let res = guarded(|| -> Result<(), (String, String)> {
        let fs = Fs::new(SimDisk::new(st2.clone()), opts).map_err(|e| ("mount-failed".to_string(), format!("{:?}", e)))?;
        let root = fs.root_dir();
        let mut f = root.open_file("big.bin").map_err(|e| ("open-failed".to_string(), format!("{:?}", e)))?;
        let mut pos: u64 = 0;
        let max = u64::from(u32::MAX);
        for _ in 0..r.range(4, 12) {
            match r.below(10) {
                0..=3 => {
                    // seek
                    let (sf, target): (SeekFrom, i128) = match r.below(7) {
                        0 => (SeekFrom::End(0), model.size as i128),
                        1 => {
                            let d = r.below(20_000) as i64;
                            (SeekFrom::End(-d), model.size as i128 - i128::from(d))
                        }
                        2 => {
                            let t = max - r.below(10);
                            (SeekFrom::Start(t), t as i128)
                        }
                        3 => {
                            let t = max + 1 + r.below(10);
                            (SeekFrom::Start(t), t as i128)
                        }
                        4 => {
                            let d = r.below(1 << 33) as i64 - (1 << 32);
                            (SeekFrom::Current(d), pos as i128 + i128::from(d))
                        }
                        5 => {
                            let t = (1u64 << 31) + r.below(9000) - 4500;
                            (SeekFrom::Start(t), t as i128)
                        }
                        _ => {
                            let t = r.below(model.size + 5000);
                            (SeekFrom::Start(t), t as i128)
                        }
                    };
                    let want: Result<u64, ()> = if target < 0 || target > i128::from(u32::MAX) { Err(()) } else { Ok((target as u64).min(model.size)) };
                    let got = f.seek(sf);
                    script.push(format!("seek({:?}) from {} -> {:?}", sf, pos, got.as_ref().map_err(|e| format!("{:?}", e))));
                    match (&got, &want) {
                        (Ok(p), Ok(w)) if p == w => pos = *p,
                        (Err(fatfs::Error::InvalidInput), Err(())) => {}
                        _ => return Err(("seek-result".into(), format!("seek({:?}) from {} (size {}) returned {:?}, expected {:?}", sf, pos, model.size, got.map_err(|e| format!("{:?}", e)), want))),
                    }
                }
                4..=6 => {
                    // read
                    let len = r.range(1, 9000) as usize;
                    let mut buf = vec![0xEEu8; len];
                    let n = f.read(&mut buf).map_err(|e| ("read-error".to_string(), format!("{:?}", e)))?;
                    let left = model.size - pos;
                    script.push(format!("read({}) at {} -> {}", len, pos, n));
                    if (n == 0) != (left == 0) || n as u64 > left.min(len as u64) {
                        return Err(("read-count".into(), format!("read({}) at {} of {} returned {}", len, pos, model.size, n)));
                    }
                    for (i, b) in buf[..n].iter().enumerate() {
                        if *b != model.get(pos + i as u64) {
                            return Err(("read-data".into(), format!("byte at {} is {:#04x}, expected {:#04x}", pos + i as u64, b, model.get(pos + i as u64))));
                        }
                    }
                    pos += n as u64;
                }
                7 | 8 => {
                    // write (possibly running into the 4 GiB - 1 limit)
                    let len = r.range(1, 6000) as usize;
                    let val = 1 + r.below(255) as u8;
                    let data = vec![val; len];
                    let mut done = 0usize;
                    loop {
                        let n = f.write(&data[done..]).map_err(|e| ("write-error".to_string(), format!("at {}: {:?}", pos, e)))?;
                        let room = max - pos;
                        script.push(format!("write({}) at {} -> {}", len - done, pos, n));
                        if n as u64 > room.min((len - done) as u64) || (n == 0 && room > 0) {
                            return Err(("write-count".into(), format!("write of {} bytes at {} (limit {}) returned {}", len - done, pos, max, n)));
                        }
                        for i in 0..n as u64 {
                            model.bytes.insert(pos + i, val);
                        }
                        pos += n as u64;
                        model.size = model.size.max(pos);
                        done += n;
                        if n == 0 || done == len {
                            break;
                        }
                    }
                }
                _ => {
                    // truncate at the cursor
                    f.truncate().map_err(|e| ("truncate-error".to_string(), format!("{:?}", e)))?;
                    script.push(format!("truncate at {}", pos));
                    model.size = pos;
                    let keys: Vec<u64> = model.bytes.range(pos..).map(|(k, _)| *k).collect();
                    for k in keys {
                        model.bytes.remove(&k);
                    }
                }
            }
        }
        f.flush().map_err(|e| ("flush-error".to_string(), format!("{:?}", e)))?;
        drop(f);
        let listed = root.iter().next().ok_or(("listing-empty".to_string(), String::new()))?.map_err(|e| ("listing-error".to_string(), format!("{:?}", e)))?.len();
        if listed != model.size {
            return Err(("size-differs".into(), format!("listed size {}, model {}", listed, model.size)));
        }
        drop(root);
        fs.unmount().map_err(|e| ("unmount-error".to_string(), format!("{:?}", e)))?;
        Ok(())
    });
    o.evaluations = script.len().max(1) as u64;
    o.distinct.push(crate::rng::hash_bytes(seed, script.join("|").as_bytes()));
    let mk = |class: &str, detail: String| {
        let v = viol("C02", class, format!("4 GiB-edge file: {} (history: {:?})", detail, script), 0);
        (v.clone(), Replay { property: "C02".into(), kind: "c02-bigfile".into(), seed, cfg: crate::c06::dummy_cfg(), steps: vec![], violation: Some(v) })
    };
    match res {
        Guarded::Done(Ok(())) => {
            // independent decode: chain length matches the size, markers are where the 64-bit geometry says
            let img = &st.borrow().store;
            match refdec::parse(img) {
                Ok(p) => {
                    if let Some(f) = p.findings.first() {
                        o.violation = Some(mk("fsck", format!("{} {}", f.kind, f.detail)));
                    } else if let Some(oi) = p.find(&["big.bin".encode_utf16().collect()]) {
                        let ob = &p.objs[oi];
                        if u64::from(ob.size) != model.size {
                            o.violation = Some(mk("raw-size-differs", format!("{} vs {}", ob.size, model.size)));
                        } else {
                            for (off, val) in model.bytes.iter().take(400) {
                                let c = ob.chain[(off / CLUSTER) as usize];
                                let got = img.u8_at(p.geo.cluster_off(c) + off % CLUSTER);
                                if got != *val {
                                    o.violation = Some(mk("raw-content-differs", format!("byte {} is {:#04x} on disk, expected {:#04x}", off, got, val)));
                                    break;
                                }
                            }
                        }
                    } else {
                        o.violation = Some(mk("file-vanished", String::new()));
                    }
                }
                Err(e) => o.violation = Some(mk("image-unparseable", e)),
            }
        }
        Guarded::Done(Err((c, d))) => o.violation = Some(mk(&c, d)),
        Guarded::Panic(m) => o.violation = Some(mk("panic", m)),
        Guarded::Hang => o.violation = Some(mk("hang", String::new())),
    }
    o.sample = Some(json!({"seed": seed, "file_size": size0, "history": script}));
    o
}

pub fn replay(kind: &str, seed: u64) -> Option<RunOutcome> {
    if kind == "c02-bigfile" {
        Some(run(seed))
    } else {
        None
    }
}

pub fn batch(tier: &str, seed: u64) -> Batch<'static> {
    let n = if tier == "quick" { 48u64 } else { 3000 };
    Batch { name: "file of almost 4 GiB on a sparse 8 GiB FAT32 device: seek / read / write / truncate around the MAX_FILE_SIZE clipping".into(), runs: n, f: Box::new(move |i| run(crate::rng::run_seed(seed, 97, i))) }
}
