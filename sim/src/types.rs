//! Shared configuration / trace types (all serialisable: a replay file is a RunCfg + a list of Steps).
use crate::clock::Stamp;
use crate::disk::SimDisk;
use crate::clock::SimClock;
use serde::{Deserialize, Serialize};

#[derive(Clone, Copy, Debug, PartialEq, Eq, Serialize, Deserialize)]
pub enum Oem {
    Lossy,
    Cp437,
}

/// OEM code page converter: the library's lossy one re-implemented as an enum so it can be a per-run knob.
#[derive(Clone, Copy, Debug)]
pub struct SimOcc(pub Oem);

pub const CP437_HIGH: [char; 128] = [
    'Ç', 'ü', 'é', 'â', 'ä', 'à', 'å', 'ç', 'ê', 'ë', 'è', 'ï', 'î', 'ì', 'Ä', 'Å', 'É', 'æ', 'Æ', 'ô', 'ö', 'ò', 'û', 'ù', 'ÿ',
    'Ö', 'Ü', '¢', '£', '¥', '₧', 'ƒ', 'á', 'í', 'ó', 'ú', 'ñ', 'Ñ', 'ª', 'º', '¿', '⌐', '¬', '½', '¼', '¡', '«', '»', '░', '▒',
    '▓', '│', '┤', '╡', '╢', '╖', '╕', '╣', '║', '╗', '╝', '╜', '╛', '┐', '└', '┴', '┬', '├', '─', '┼', '╞', '╟', '╚', '╔', '╩',
    '╦', '╠', '═', '╬', '╧', '╨', '╤', '╥', '╙', '╘', '╒', '╓', '╫', '╪', '┘', '┌', '█', '▄', '▌', '▐', '▀', 'α', 'ß', 'Γ', 'π',
    'Σ', 'σ', 'µ', 'τ', 'Φ', 'Θ', 'Ω', 'δ', '∞', 'φ', 'ε', '∩', '≡', '±', '≥', '≤', '⌠', '⌡', '÷', '≈', '°', '∙', '·', '√', 'ⁿ',
    '²', '■', '\u{a0}',
];

impl SimOcc {
    pub fn dec(self, b: u8) -> char {
        if b < 0x80 {
            b as char
        } else {
            match self.0 {
                Oem::Lossy => '\u{FFFD}',
                Oem::Cp437 => CP437_HIGH[usize::from(b - 0x80)],
            }
        }
    }
}

impl fatfs::OemCpConverter for SimOcc {
    fn decode(&self, oem_char: u8) -> char {
        self.dec(oem_char)
    }
    fn encode(&self, uni_char: char) -> Option<u8> {
        if uni_char <= '\x7F' {
            return Some(uni_char as u8);
        }
        match self.0 {
            Oem::Lossy => None,
            Oem::Cp437 => CP437_HIGH.iter().position(|c| *c == uni_char).map(|p| (p + 0x80) as u8),
        }
    }
}

pub type Fs = fatfs::FileSystem<SimDisk, SimClock, SimOcc>;
pub type FDir<'a> = fatfs::Dir<'a, SimDisk, SimClock, SimOcc>;
pub type FFile<'a> = fatfs::File<'a, SimDisk, SimClock, SimOcc>;
pub type FEntry<'a> = fatfs::DirEntry<'a, SimDisk, SimClock, SimOcc>;
pub type FErr = fatfs::Error<crate::disk::SimIoError>;

#[derive(Clone, Debug, PartialEq, Eq, Serialize, Deserialize)]
pub enum VolSource {
    /// made by the library's own format_volume
    Format,
    /// made by the independent builder with this seed
    Refgen(u64),
}

#[derive(Clone, Debug, Serialize, Deserialize)]
pub struct VolCfg {
    pub source: VolSource,
    /// requested FAT width (12/16/32)
    pub fat: u8,
    pub bps: u16,
    pub spc: u8,
    pub fats: u8,
    pub root_entries: u16,
    pub total_sectors: u32,
    /// device sectors beyond the declared end of the volume (canary-filled)
    pub extra_sectors: u32,
    /// leave only this many clusters free (the rest are pre-marked bad); None = no ballast
    pub ballast_keep: Option<u32>,
    /// 0 = keep the first free clusters, 1 = keep the last ones, 2 = scattered
    pub ballast_mode: u8,
    /// FAT32: what to put into the FS-info free count after ballast: 0 = exact, 1 = 0xFFFFFFFF, 2 = out of range
    pub fsinfo_mode: u8,
    /// FAT32 next-free hint override (None = leave)
    pub hint: Option<u32>,
    /// status byte to poke before the first mount (dirty / io-error bits)
    pub status: u8,
    pub label: bool,
    /// C20: pre-mark the last k clusters of the volume as unusable (bad) so that 'last clusters taken' is reachable
    #[serde(default)]
    pub tail_taken: u8,
    /// the device is not blank when it is formatted (every byte never written reads as a position-dependent pattern)
    #[serde(default)]
    pub dirty_medium: bool,
}

#[derive(Clone, Debug, Default, Serialize, Deserialize)]
pub struct BenignCfg {
    pub eintr: u32,
    pub short_read: u32,
    pub short_write: u32,
}

#[derive(Clone, Debug, Default, Serialize, Deserialize)]
pub struct Oracles {
    /// C01: outcome of every namespace call is in the model's acceptable set
    pub outcome: bool,
    /// C01: library-side recursive listing + contents equal the model after every call
    pub lib_tree: bool,
    /// C01/C04: independent decode of the raw image equals the model after every call
    pub raw_tree: bool,
    /// C01: a call failing with a non-I/O error leaves the image byte-identical (timestamps of path dirs excepted)
    pub fail_atomic: bool,
    /// C02: byte-array model of open files
    pub file_model: bool,
    /// C03: refdec::fsck after every call
    pub fsck: bool,
    /// C04: checkpoints (second mount of a snapshot, remount, extents)
    pub checkpoint: bool,
    /// C05: stats() == raw free count after every call, FS-info after unmount, NoSpace justified
    pub free_count: bool,
    /// C10: FAT copies, reserved entries, FAT32 top nibbles
    pub fat_copies: bool,
    /// C11: write auditor
    pub write_audit: bool,
    /// C12: dirty bit
    pub dirty_bit: bool,
    /// C13: no writes at all
    pub read_only: bool,
    /// C18: stamping rules
    pub stamps: bool,
    /// C08: raw diff touches only what the op owns
    pub raw_diff: bool,
    /// C20: every device offset inside the volume and equal to independent geometry
    pub offsets: bool,
    /// C09: an injected storage error must come back as Error::Io carrying it
    #[serde(default)]
    pub io_errors: bool,
    /// C14: keep the whole write log (payloads, flush epochs), flush points and untrack events
    #[serde(default)]
    pub crash_log: bool,
    /// C16: every short name on the volume is legal (all entries were made by the library)
    #[serde(default)]
    pub alias_rules: bool,
    /// C12 under transient storage errors: a hard device error does not end the run; the model-based oracles stay off
    /// from then on, the status-byte rules (which need no model) stay on
    #[serde(default)]
    pub fault_resilient: bool,
    /// percentage of `unmount()` calls that meet one transient storage error (the call fails, the destructor that
    /// follows completes the work); everything demanded of an unmounted volume stays in force
    #[serde(default)]
    pub unmount_faults: u8,
}

#[derive(Clone, Debug, Serialize, Deserialize)]
pub struct RunCfg {
    pub vol: VolCfg,
    pub access_date: bool,
    pub strict: bool,
    pub oem: Oem,
    pub benign: BenignCfg,
    pub oracles: Oracles,
    pub start: Stamp,
    /// seed for the benign-fault stream of the device
    pub dev_seed: u64,
    /// C13: number of leading (populating) sessions during which writes are expected
    #[serde(default)]
    pub ro_skip_sessions: u8,
}

#[derive(Clone, Debug, PartialEq, Eq, Serialize, Deserialize)]
pub enum Op {
    CreateFile { base: u8, path: String, keep: Option<u8> },
    CreateDir { base: u8, path: String, keep: Option<u8> },
    OpenFile { base: u8, path: String, slot: u8 },
    OpenDir { base: u8, path: String, slot: u8 },
    List { base: u8 },
    Remove { base: u8, path: String },
    Rename { sbase: u8, spath: String, dbase: u8, dpath: String },
    Write { f: u8, len: u32, fill: u64 },
    Read { f: u8, len: u32 },
    /// whence: 0 = Start, 1 = Current, 2 = End
    Seek { f: u8, whence: u8, off: i64 },
    Truncate { f: u8 },
    Flush { f: u8 },
    CloseFile { f: u8 },
    CloseDir { d: u8 },
    /// which: 0 created, 1 modified, 2 accessed
    SetTime { f: u8, which: u8, t: Stamp },
    Stats,
    Status,
    Label,
    Clock { t: Stamp },
    /// drop every handle, then compare model, raw decode and a second mount of a snapshot
    Checkpoint,
    /// end the session: 0 = unmount(), 1 = drop, 2 = abandon (forget) -- and mount again
    Remount { how: u8 },
}

#[derive(Clone, Debug, Serialize, Deserialize)]
pub struct Step {
    /// logical client issuing the op
    pub c: u8,
    pub op: Op,
    /// inject a hard error at the k-th device call of this op
    #[serde(default, skip_serializing_if = "Option::is_none")]
    pub hard_at: Option<u64>,
    /// the device stays dead after the injected error (every later call of the step fails too)
    #[serde(default, skip_serializing_if = "std::ops::Not::not")]
    pub sticky: bool,
}

#[derive(Clone, Debug, Serialize, Deserialize)]
pub struct Violation {
    pub property: String,
    pub class: String,
    pub detail: String,
    pub step: usize,
}

#[derive(Clone, Debug, Serialize, Deserialize)]
pub struct Replay {
    pub property: String,
    pub kind: String,
    pub seed: u64,
    pub cfg: RunCfg,
    pub steps: Vec<Step>,
    pub violation: Option<Violation>,
}
