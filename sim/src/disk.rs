//! SimDisk: the only storage the library ever sees. Sparse copy-on-write page store, call log with
//! payloads and pre-images, and the fault plan (hard error at the k-th call, EINTR, short transfers,
//! call budget, "fail everything beyond byte X").
use crate::rng::Rng;
use fatfs::{IoBase, IoError, Read, Seek, SeekFrom, Write};
use std::cell::RefCell;
use std::collections::BTreeMap;
use std::rc::Rc;

pub const PAGE: u64 = 4096;
/// the per-operation call log keeps at most this many records (a legitimate whole-FAT scan can be far longer)
pub const CALL_LOG_CAP: usize = 4_000_000;
type Page = [u8; PAGE as usize];

#[derive(Clone, Debug, PartialEq, Eq)]
pub enum ErrKind {
    /// injected hard error with a unique id
    Hard,
    /// retryable (is_interrupted() == true), nothing transferred
    Interrupted,
    /// produced by the library's own read_exact on EOF
    UnexpectedEof,
    /// produced by the library's own write_all on a zero-length write
    WriteZero,
    /// the library asked for an impossible seek (negative / beyond u64)
    BadSeek,
}

#[derive(Clone, Debug, PartialEq, Eq)]
pub struct SimIoError {
    pub kind: ErrKind,
    pub id: u64,
}

impl IoError for SimIoError {
    fn is_interrupted(&self) -> bool {
        self.kind == ErrKind::Interrupted
    }
    fn new_unexpected_eof_error() -> Self {
        SimIoError { kind: ErrKind::UnexpectedEof, id: 0 }
    }
    fn new_write_zero_error() -> Self {
        SimIoError { kind: ErrKind::WriteZero, id: 0 }
    }
}

/// Sparse page store. Absent page = zeros (or the canary pattern at/after `canary_from`).
#[derive(Clone)]
pub struct Store {
    pages: BTreeMap<u64, Rc<Page>>,
    pub len: u64,
    pub canary_from: u64,
    /// "dirty medium": bytes never written read as a non-zero pattern everywhere (re-format over old data)
    pub dirty_medium: bool,
}

#[inline]
pub fn canary(off: u64) -> u8 {
    ((off.wrapping_mul(0x9E37_79B9) >> 7) as u8) | 0x81
}

impl Store {
    pub fn new(len: u64) -> Self {
        Store { pages: BTreeMap::new(), len, canary_from: u64::MAX, dirty_medium: false }
    }
    pub fn with_canary(len: u64, canary_from: u64) -> Self {
        Store { pages: BTreeMap::new(), len, canary_from, dirty_medium: false }
    }
    pub fn from_bytes(data: &[u8]) -> Self {
        let mut s = Store::new(data.len() as u64);
        s.write_at(0, data);
        s
    }
    pub fn resident_pages(&self) -> usize {
        self.pages.len()
    }
    fn default_page(&self, pno: u64) -> Page {
        let mut p = [0u8; PAGE as usize];
        let base = pno * PAGE;
        if base + PAGE > self.canary_from || self.dirty_medium {
            for (i, b) in p.iter_mut().enumerate() {
                let off = base + i as u64;
                if off >= self.canary_from || self.dirty_medium {
                    *b = canary(off);
                }
            }
        }
        p
    }
    pub fn read_at(&self, off: u64, buf: &mut [u8]) {
        let mut done = 0usize;
        while done < buf.len() {
            let o = off + done as u64;
            let pno = o / PAGE;
            let po = (o % PAGE) as usize;
            let n = (PAGE as usize - po).min(buf.len() - done);
            match self.pages.get(&pno) {
                Some(p) => buf[done..done + n].copy_from_slice(&p[po..po + n]),
                None => {
                    if o + n as u64 > self.canary_from || self.dirty_medium {
                        for i in 0..n {
                            let a = o + i as u64;
                            buf[done + i] = if a >= self.canary_from || self.dirty_medium { canary(a) } else { 0 };
                        }
                    } else {
                        buf[done..done + n].fill(0);
                    }
                }
            }
            done += n;
        }
    }
    pub fn write_at(&mut self, off: u64, data: &[u8]) {
        let mut done = 0usize;
        while done < data.len() {
            let o = off + done as u64;
            let pno = o / PAGE;
            let po = (o % PAGE) as usize;
            let n = (PAGE as usize - po).min(data.len() - done);
            let chunk = &data[done..done + n];
            if !self.pages.contains_key(&pno) {
                // zero-write elision keeps multi-TiB volumes at a few resident pages
                let in_canary = o + n as u64 > self.canary_from || self.dirty_medium;
                if !in_canary && chunk.iter().all(|b| *b == 0) {
                    done += n;
                    continue;
                }
                let p = self.default_page(pno);
                self.pages.insert(pno, Rc::new(p));
            }
            let p = Rc::make_mut(self.pages.get_mut(&pno).unwrap());
            p[po..po + n].copy_from_slice(chunk);
            done += n;
        }
    }
    pub fn get(&self, off: u64, len: usize) -> Vec<u8> {
        let mut v = vec![0u8; len];
        self.read_at(off, &mut v);
        v
    }
    pub fn u8_at(&self, off: u64) -> u8 {
        let mut b = [0u8; 1];
        self.read_at(off, &mut b);
        b[0]
    }
    pub fn u16_at(&self, off: u64) -> u16 {
        let mut b = [0u8; 2];
        self.read_at(off, &mut b);
        u16::from_le_bytes(b)
    }
    pub fn u32_at(&self, off: u64) -> u32 {
        let mut b = [0u8; 4];
        self.read_at(off, &mut b);
        u32::from_le_bytes(b)
    }
    pub fn put_u8(&mut self, off: u64, v: u8) {
        self.write_at(off, &[v]);
    }
    pub fn put_u16(&mut self, off: u64, v: u16) {
        self.write_at(off, &v.to_le_bytes());
    }
    pub fn put_u32(&mut self, off: u64, v: u32) {
        self.write_at(off, &v.to_le_bytes());
    }
    /// page numbers that are resident (may hold non-default bytes) in [from, to)
    pub fn resident_in(&self, from: u64, to: u64) -> Vec<u64> {
        if from >= to {
            return vec![];
        }
        self.pages.range(from / PAGE..=(to - 1) / PAGE).map(|(k, _)| *k).collect()
    }
    /// byte ranges (off,len) where `self` and `other` differ; both must have same canary_from
    pub fn diff(&self, other: &Store) -> Vec<(u64, u64)> {
        let mut keys: Vec<u64> = self.pages.keys().chain(other.pages.keys()).copied().collect();
        keys.sort_unstable();
        keys.dedup();
        let mut out: Vec<(u64, u64)> = Vec::new();
        for k in keys {
            let a = self.pages.get(&k);
            let b = other.pages.get(&k);
            if let (Some(x), Some(y)) = (a, b) {
                if Rc::ptr_eq(x, y) {
                    continue;
                }
            }
            let pa = match a {
                Some(p) => **p,
                None => self.default_page(k),
            };
            let pb = match b {
                Some(p) => **p,
                None => other.default_page(k),
            };
            if pa == pb {
                continue;
            }
            let mut i = 0usize;
            while i < PAGE as usize {
                if pa[i] != pb[i] {
                    let s = i;
                    while i < PAGE as usize && pa[i] != pb[i] {
                        i += 1;
                    }
                    let off = k * PAGE + s as u64;
                    let len = (i - s) as u64;
                    if let Some(last) = out.last_mut() {
                        if last.0 + last.1 == off {
                            last.1 += len;
                            continue;
                        }
                    }
                    out.push((off, len));
                } else {
                    i += 1;
                }
            }
        }
        out
    }
    /// are the byte ranges [a, a+len) and [b, b+len) identical?
    pub fn eq_ranges(&self, a: u64, b: u64, len: u64) -> bool {
        if !self.dirty_medium && self.resident_in(a, a + len).is_empty() && self.resident_in(b, b + len).is_empty() && a + len <= self.canary_from && b + len <= self.canary_from {
            return true;
        }
        let mut o = 0u64;
        while o < len {
            let n = (len - o).min(65536);
            if self.get(a + o, n as usize) != self.get(b + o, n as usize) {
                return false;
            }
            o += n;
        }
        true
    }
    /// deterministic fingerprint of the whole content
    pub fn fingerprint(&self) -> u64 {
        let mut h = crate::rng::hash_bytes(0x1234, &self.len.to_le_bytes());
        for (k, p) in &self.pages {
            let dp = self.default_page(*k);
            if **p == dp {
                continue;
            }
            h = crate::rng::hash_bytes(h, &k.to_le_bytes());
            h = crate::rng::hash_bytes(h, &p[..]);
        }
        h
    }
    /// offsets at or after canary_from whose byte differs from the canary pattern (first few)
    pub fn canary_damage(&self) -> Vec<u64> {
        let mut out = vec![];
        if self.canary_from == u64::MAX {
            return out;
        }
        for (k, p) in self.pages.range(self.canary_from / PAGE..) {
            for i in 0..PAGE as usize {
                let off = k * PAGE + i as u64;
                if off >= self.canary_from && off < self.len && p[i] != canary(off) {
                    out.push(off);
                    if out.len() > 8 {
                        return out;
                    }
                }
            }
        }
        out
    }
}

#[derive(Clone, Copy, Debug, PartialEq, Eq)]
pub enum CallKind {
    Read,
    Write,
    Seek,
    Flush,
}

#[derive(Clone, Debug)]
pub struct CallRec {
    pub kind: CallKind,
    pub off: u64,
    pub len: u32,
    pub ok: bool,
    pub in_drop: bool,
}

#[derive(Clone, Debug)]
pub struct WriteRec {
    pub seq: u64,
    pub off: u64,
    pub len: u32,
    pub data: Vec<u8>,
    pub pre: Vec<u8>,
    pub in_drop: bool,
    /// number of device flush() calls that completed before this write
    pub epoch: u32,
}

#[derive(Clone, Copy, Debug, PartialEq, Eq)]
pub enum LogMode {
    Off,
    /// offsets and lengths of every call
    Meta,
    /// plus payload and pre-image of every write
    Full,
}

#[derive(Clone, Debug, Default)]
pub struct Benign {
    /// per-mille probabilities
    pub eintr: u32,
    pub short_read: u32,
    pub short_write: u32,
}

#[derive(Clone, Debug)]
pub struct FaultPlan {
    /// fail the k-th device call (1-based, counted since `arm`) with a hard error
    pub hard_at: Option<u64>,
    /// after the hard error fired, keep failing every later call too ("device died")
    pub sticky: bool,
    pub benign: Benign,
    /// more than this many calls since `arm` => non-termination (panics with BudgetOverrun)
    pub budget: u64,
    /// every call touching bytes at or beyond this offset fails (boot-sector probe of C06)
    pub fail_from: Option<u64>,
}

impl Default for FaultPlan {
    fn default() -> Self {
        FaultPlan { hard_at: None, sticky: false, benign: Benign::default(), budget: u64::MAX, fail_from: None }
    }
}

#[derive(Clone, Debug, Default)]
pub struct Fired {
    pub hard: u64,
    pub eintr: u64,
    pub short_read: u64,
    pub short_write: u64,
    pub eof_reads: u64,
    pub full_writes: u64,
    pub budget_overruns: u64,
}

#[derive(Clone, Debug)]
pub struct Injected {
    pub id: u64,
    pub k: u64,
    pub kind: CallKind,
    pub in_drop: bool,
}

/// payload of the panic raised when the call budget is exhausted
pub struct BudgetOverrun;

pub struct DiskState {
    pub store: Store,
    pub log_mode: LogMode,
    pub calls: Vec<CallRec>,
    pub writes: Vec<WriteRec>,
    pub total_calls: u64,
    pub op_calls: u64,
    pub epoch: u32,
    pub plan: FaultPlan,
    pub benign_rng: Rng,
    pub fired: Fired,
    pub injected: Vec<Injected>,
    pub next_err_id: u64,
    pub bad_seeks: u64,
    dead: bool,
    overrun: bool,
}

impl DiskState {
    pub fn new(store: Store) -> Self {
        DiskState {
            store,
            log_mode: LogMode::Meta,
            calls: Vec::new(),
            writes: Vec::new(),
            total_calls: 0,
            op_calls: 0,
            epoch: 0,
            plan: FaultPlan::default(),
            benign_rng: Rng::new(0),
            fired: Fired::default(),
            injected: Vec::new(),
            next_err_id: 1000,
            bad_seeks: 0,
            dead: false,
            overrun: false,
        }
    }
    /// start of an API call: install the plan, reset the per-operation counter and logs
    pub fn arm(&mut self, plan: FaultPlan) {
        self.plan = plan;
        self.op_calls = 0;
        self.calls.clear();
        self.writes.clear();
        self.injected.clear();
        self.dead = false;
        self.overrun = false;
    }
    pub fn disarm(&mut self) {
        self.plan = FaultPlan::default();
        self.dead = false;
    }
    fn in_drop() -> bool {
        #[cfg(fatfs_verif)]
        {
            fatfs::verif::in_drop()
        }
        #[cfg(not(fatfs_verif))]
        {
            false
        }
    }
    /// common prologue of every device call; Err = the call must fail with this error
    fn enter(&mut self, kind: CallKind, off: u64, len: usize) -> Result<bool, SimIoError> {
        self.total_calls += 1;
        self.op_calls += 1;
        let in_drop = Self::in_drop();
        if self.op_calls > self.plan.budget {
            if self.overrun {
                // already unwinding from the overrun: destructors that still do I/O just see a dead device
                return Err(SimIoError { kind: ErrKind::Hard, id: 1 });
            }
            self.overrun = true;
            self.fired.budget_overruns += 1;
            std::panic::panic_any(BudgetOverrun);
        }
        let mut fail = false;
        if self.dead {
            fail = true;
        }
        if let Some(k) = self.plan.hard_at {
            if self.op_calls == k {
                fail = true;
                if self.plan.sticky {
                    self.dead = true;
                }
            }
        }
        if let Some(x) = self.plan.fail_from {
            if kind != CallKind::Flush && off.saturating_add(len as u64) > x && !(kind == CallKind::Seek && off <= x) {
                fail = true;
            }
        }
        if fail {
            let id = self.next_err_id;
            self.next_err_id += 1;
            self.fired.hard += 1;
            self.injected.push(Injected { id, k: self.op_calls, kind, in_drop });
            if self.log_mode != LogMode::Off && self.calls.len() < CALL_LOG_CAP {
                self.calls.push(CallRec { kind, off, len: len as u32, ok: false, in_drop });
            }
            return Err(SimIoError { kind: ErrKind::Hard, id });
        }
        Ok(in_drop)
    }
}

/// The handle given to the library (and a second one kept by the harness).
pub struct SimDisk {
    pub st: Rc<RefCell<DiskState>>,
    pub pos: u64,
}

impl SimDisk {
    pub fn new(st: Rc<RefCell<DiskState>>) -> Self {
        SimDisk { st, pos: 0 }
    }
}

impl IoBase for SimDisk {
    type Error = SimIoError;
}

impl Read for SimDisk {
    fn read(&mut self, buf: &mut [u8]) -> Result<usize, SimIoError> {
        let mut guard = self.st.borrow_mut();
        let st = &mut *guard;
        let in_drop = st.enter(CallKind::Read, self.pos, buf.len())?;
        let avail = st.store.len.saturating_sub(self.pos);
        let mut n = (buf.len() as u64).min(avail) as usize;
        if n == 0 && !buf.is_empty() {
            st.fired.eof_reads += 1;
        }
        let b = &st.plan.benign;
        if n > 0 && (b.eintr > 0 || b.short_read > 0) {
            let r = st.benign_rng.below(1000) as u32;
            if r < b.eintr {
                st.fired.eintr += 1;
                if st.log_mode != LogMode::Off {
                    st.calls.push(CallRec { kind: CallKind::Read, off: self.pos, len: 0, ok: false, in_drop });
                }
                return Err(SimIoError { kind: ErrKind::Interrupted, id: 0 });
            }
            if n >= 2 && r < b.eintr + b.short_read {
                n = 1 + st.benign_rng.usize_below(n - 1);
                st.fired.short_read += 1;
            }
        }
        st.store.read_at(self.pos, &mut buf[..n]);
        if st.log_mode != LogMode::Off && st.calls.len() < CALL_LOG_CAP {
            st.calls.push(CallRec { kind: CallKind::Read, off: self.pos, len: n as u32, ok: true, in_drop });
        }
        self.pos += n as u64;
        Ok(n)
    }
}

impl Write for SimDisk {
    fn write(&mut self, buf: &[u8]) -> Result<usize, SimIoError> {
        let mut guard = self.st.borrow_mut();
        let st = &mut *guard;
        let in_drop = st.enter(CallKind::Write, self.pos, buf.len())?;
        let avail = st.store.len.saturating_sub(self.pos);
        let mut n = (buf.len() as u64).min(avail) as usize;
        if n == 0 && !buf.is_empty() {
            st.fired.full_writes += 1;
        }
        let b = &st.plan.benign;
        if n > 0 && (b.eintr > 0 || b.short_write > 0) {
            let r = st.benign_rng.below(1000) as u32;
            if r < b.eintr {
                st.fired.eintr += 1;
                if st.log_mode != LogMode::Off {
                    st.calls.push(CallRec { kind: CallKind::Write, off: self.pos, len: 0, ok: false, in_drop });
                }
                return Err(SimIoError { kind: ErrKind::Interrupted, id: 0 });
            }
            if n >= 2 && r < b.eintr + b.short_write {
                n = 1 + st.benign_rng.usize_below(n - 1);
                st.fired.short_write += 1;
            }
        }
        if st.log_mode != LogMode::Off {
            st.calls.push(CallRec { kind: CallKind::Write, off: self.pos, len: n as u32, ok: true, in_drop });
            let full = st.log_mode == LogMode::Full;
            let pre = if full { st.store.get(self.pos, n) } else { Vec::new() };
            st.writes.push(WriteRec {
                seq: st.total_calls,
                off: self.pos,
                len: n as u32,
                data: if full { buf[..n].to_vec() } else { Vec::new() },
                pre,
                in_drop,
                epoch: st.epoch,
            });
        }
        st.store.write_at(self.pos, &buf[..n]);
        self.pos += n as u64;
        Ok(n)
    }

    fn flush(&mut self) -> Result<(), SimIoError> {
        let mut guard = self.st.borrow_mut();
        let st = &mut *guard;
        let in_drop = st.enter(CallKind::Flush, 0, 0)?;
        st.epoch += 1;
        if st.log_mode != LogMode::Off {
            st.calls.push(CallRec { kind: CallKind::Flush, off: 0, len: 0, ok: true, in_drop });
        }
        Ok(())
    }
}

impl Seek for SimDisk {
    fn seek(&mut self, pos: SeekFrom) -> Result<u64, SimIoError> {
        let mut guard = self.st.borrow_mut();
        let st = &mut *guard;
        let target: Option<u64> = match pos {
            SeekFrom::Start(x) => Some(x),
            SeekFrom::Current(d) => i128::from(self.pos).checked_add(i128::from(d)).and_then(|v| u64::try_from(v).ok()),
            SeekFrom::End(d) => i128::from(st.store.len).checked_add(i128::from(d)).and_then(|v| u64::try_from(v).ok()),
        };
        let in_drop = st.enter(CallKind::Seek, target.unwrap_or(u64::MAX), 0)?;
        match target {
            Some(t) => {
                if st.log_mode != LogMode::Off && st.calls.len() < CALL_LOG_CAP {
                    st.calls.push(CallRec { kind: CallKind::Seek, off: t, len: 0, ok: true, in_drop });
                }
                self.pos = t;
                Ok(t)
            }
            None => {
                st.bad_seeks += 1;
                Err(SimIoError { kind: ErrKind::BadSeek, id: 0 })
            }
        }
    }
}
