//! Volume construction: library format_volume (or the independent builder) + ballast + pokes.
use crate::disk::{canary, DiskState, LogMode, SimDisk, Store};
use crate::refdec::{self, Geo};
use crate::rng::Rng;
use crate::types::*;
use std::cell::RefCell;
use std::rc::Rc;

pub fn fat_type_of(bits: u8) -> fatfs::FatType {
    match bits {
        12 => fatfs::FatType::Fat12,
        16 => fatfs::FatType::Fat16,
        _ => fatfs::FatType::Fat32,
    }
}

/// Format a fresh device according to `v`. Err = the library rejected the request (caller re-draws).
pub fn format_store(v: &VolCfg) -> Result<Store, String> {
    let bps = u64::from(v.bps);
    let dev_len = (u64::from(v.total_sectors) + u64::from(v.extra_sectors)) * bps;
    let store = if v.extra_sectors > 0 {
        Store::with_canary(dev_len, u64::from(v.total_sectors) * bps)
    } else {
        Store::new(dev_len)
    };
    let mut store = store;
    store.dirty_medium = v.dirty_medium;
    let st = Rc::new(RefCell::new(DiskState::new(store)));
    st.borrow_mut().log_mode = LogMode::Off;
    let mut opts = fatfs::FormatVolumeOptions::new()
        .bytes_per_sector(v.bps)
        .bytes_per_cluster(u32::from(v.spc) * u32::from(v.bps))
        .fats(v.fats)
        .max_root_dir_entries(v.root_entries)
        .fat_type(fat_type_of(v.fat));
    if v.extra_sectors > 0 || v.total_sectors % 2 == 0 {
        opts = opts.total_sectors(v.total_sectors);
    }
    if v.label {
        opts = opts.volume_label(*b"SIMVOL  LBL");
    }
    let mut d = SimDisk::new(st.clone());
    fatfs::format_volume(&mut d, opts).map_err(|e| format!("{:?}", e))?;
    drop(d);
    let st = Rc::try_unwrap(st).map_err(|_| "disk still shared".to_string())?.into_inner();
    Ok(st.store)
}

/// Write raw FAT entry `c` in every copy (FAT32: low 28 bits replaced, high nibble kept)
pub fn poke_fat(img: &mut Store, g: &Geo, c: u32, val: u32) {
    for copy in 0..g.nfats {
        let base = g.fat_copy_off(copy);
        match g.fat_bits {
            12 => {
                let o = base + u64::from(c) + u64::from(c / 2);
                let w = img.u16_at(o);
                let nw = if c & 1 == 0 { (w & 0xF000) | (val as u16 & 0x0FFF) } else { (w & 0x000F) | ((val as u16) << 4) };
                img.put_u16(o, nw);
            }
            16 => img.put_u16(base + u64::from(c) * 2, val as u16),
            _ => {
                let o = base + u64::from(c) * 4;
                let old = img.u32_at(o);
                img.put_u32(o, (old & 0xF000_0000) | (val & 0x0FFF_FFFF));
            }
        }
    }
}

/// ballast on a builder-made image: mark all but `keep` free clusters bad in the copies that are in use
pub fn ballast_only(img: &mut Store, v: &VolCfg, rng: &mut Rng) -> Result<(), String> {
    let g = refdec::geo(img)?;
    let Some(keep) = v.ballast_keep else { return Ok(()) };
    let mut free: Vec<u32> = vec![];
    if g.fat_bits == 32 {
        // sparse-aware: free = everything not present; take a window to keep this cheap
        let p = refdec::parse(img)?;
        let mut c = 2u32;
        while c <= g.max_cluster() {
            if refdec::fat_val(img, &g, c) == 0 {
                free.push(c);
            }
            c += 1;
        }
        let _ = p;
    } else {
        free = (2..g.n_clusters + 2).filter(|c| refdec::fat_val(img, &g, *c) == 0).collect();
    }
    let keep = (keep as usize).min(free.len());
    match v.ballast_mode {
        0 => {
            free.drain(..keep);
        }
        1 => {
            let n = free.len();
            free.truncate(n - keep);
        }
        _ => {
            for _ in 0..keep {
                let i = rng.usize_below(free.len());
                free.swap_remove(i);
            }
        }
    }
    let copies: Vec<u32> = if g.mirroring() { (0..g.nfats).collect() } else { vec![g.active_fat()] };
    for c in free {
        for copy in &copies {
            let base = g.fat_copy_off(*copy);
            match g.fat_bits {
                12 => {
                    let o = base + u64::from(c) + u64::from(c / 2);
                    let w = img.u16_at(o);
                    let val = 0xFF7u16;
                    let nw = if c & 1 == 0 { (w & 0xF000) | val } else { (w & 0x000F) | (val << 4) };
                    img.put_u16(o, nw);
                }
                16 => img.put_u16(base + u64::from(c) * 2, 0xFFF7),
                _ => {
                    let o = base + u64::from(c) * 4;
                    let old = img.u32_at(o);
                    img.put_u32(o, (old & 0xF000_0000) | 0x0FFF_FFF7);
                }
            }
        }
    }
    if g.fat_bits == 32 {
        let fo = u64::from(g.fsinfo_sector) * u64::from(g.bps);
        let cnt = img.u32_at(fo + 488);
        if cnt != 0xFFFF_FFFF && cnt <= g.n_clusters {
            img.put_u32(fo + 488, keep as u32);
        }
    }
    Ok(())
}

/// Apply ballast / FS-info / status pokes to a freshly formatted image.
pub fn dress(img: &mut Store, v: &VolCfg, rng: &mut Rng) -> Result<(), String> {
    let g = refdec::geo(img)?;
    if let Some(keep) = v.ballast_keep {
        let mut free: Vec<u32> = (2..g.n_clusters + 2).filter(|c| refdec::fat_val(img, &g, *c) == 0).collect();
        let keep = (keep as usize).min(free.len());
        let kept: Vec<u32> = match v.ballast_mode {
            0 => free.drain(..keep).collect(),
            1 => {
                let n = free.len();
                free.drain(n - keep..).collect()
            }
            _ => {
                let mut k = vec![];
                for _ in 0..keep {
                    let i = rng.usize_below(free.len());
                    k.push(free.swap_remove(i));
                }
                k
            }
        };
        let _ = kept;
        for c in free {
            poke_fat(img, &g, c, g.bad_mark());
        }
    }
    if v.tail_taken > 0 {
        for k in 0..u32::from(v.tail_taken) {
            if g.max_cluster() - k >= 3 {
                poke_fat(img, &g, g.max_cluster() - k, g.bad_mark());
            }
        }
    }
    if g.fat_bits == 32 {
        let fo = u64::from(g.fsinfo_sector) * u64::from(g.bps);
        match v.fsinfo_mode {
            0 => {
                // exact count: recount only when the allocation state was changed above (cheap on small volumes);
                // a freshly formatted volume already carries the exact count
                if v.ballast_keep.is_some() {
                    let free_now = (2..g.n_clusters + 2).filter(|c| refdec::fat_val(img, &g, *c) == 0).count() as u32;
                    img.put_u32(fo + 488, free_now);
                } else if v.tail_taken > 0 {
                    let cur = img.u32_at(fo + 488);
                    img.put_u32(fo + 488, cur - u32::from(v.tail_taken).min(g.n_clusters.saturating_sub(1)));
                }
            }
            1 => img.put_u32(fo + 488, 0xFFFF_FFFF),
            _ => img.put_u32(fo + 488, g.n_clusters + 1 + (rng.below(1000) as u32)),
        }
        if let Some(h) = v.hint {
            img.put_u32(fo + 492, h);
        }
        // canary in the unused reserved sectors (everything but boot, fsinfo, backup boot)
        for sec in 1..u64::from(g.reserved) {
            if sec == u64::from(g.fsinfo_sector) || sec == u64::from(g.backup_sector) {
                continue;
            }
            let base = sec * u64::from(g.bps);
            let pat: Vec<u8> = (0..u64::from(g.bps)).map(|i| canary(base + i)).collect();
            img.write_at(base, &pat);
        }
    }
    if v.status != 0 {
        img.put_u8(g.status_off, v.status);
    }
    Ok(())
}

/// offsets of reserved-area canary bytes that were damaged (FAT32 library-formatted volumes)
pub fn reserved_canary_damage(img: &Store, g: &Geo) -> Vec<u64> {
    let mut out = vec![];
    if g.fat_bits != 32 {
        return out;
    }
    for sec in 1..u64::from(g.reserved) {
        if sec == u64::from(g.fsinfo_sector) || sec == u64::from(g.backup_sector) {
            continue;
        }
        let base = sec * u64::from(g.bps);
        let data = img.get(base, g.bps as usize);
        for (i, b) in data.iter().enumerate() {
            if *b != canary(base + i as u64) {
                out.push(base + i as u64);
                if out.len() > 4 {
                    return out;
                }
            }
        }
    }
    out
}

/// Draw a volume configuration that the library accepts for the wanted FAT width.
pub fn draw_vol(rng: &mut Rng, fat: u8, small_root: bool) -> VolCfg {
    let bps: u16 = *rng.pick(&[512u16, 512, 512, 1024, 2048, 4096]);
    let spc: u8 = match fat {
        32 => *rng.pick(&[1u8, 1, 1, 2, 4]),
        _ => *rng.pick(&[1u8, 1, 2, 4, 8, 16, 32, 64, 128]),
    };
    let fats = *rng.pick(&[1u8, 2, 2]);
    let per_sec = (bps / 32) as u16;
    let root_entries = if fat == 32 {
        512
    } else if small_root {
        per_sec * (1 + rng.below(2) as u16)
    } else {
        per_sec * (*rng.pick(&[1u16, 2, 4, 8, 16]))
    };
    // mostly comfortable sizes, sometimes right at the limits of the FAT width (last representable clusters)
    let edge = rng.chance(1, 5);
    let clusters: u32 = match fat {
        12 => if edge { rng.range(4060, 4084) as u32 } else { rng.range(8, 4000) as u32 },
        16 => if edge { if rng.chance(1, 2) { rng.range(4085, 4100) as u32 } else { rng.range(65_480, 65_524) as u32 } } else { rng.range(4100, 9000) as u32 },
        _ => if edge { rng.range(65_525, 65_560) as u32 } else { rng.range(65_600, 70_000) as u32 },
    };
    // rough estimate; format decides the exact layout, draw_valid() retries on rejection
    let fat_secs = (((u64::from(clusters) + 2) * u64::from(fat) + 8 * u64::from(bps) - 1) / (8 * u64::from(bps))) as u32 * u32::from(fats);
    let root_secs = u32::from(root_entries) * 32 / u32::from(bps);
    let reserved = if fat == 32 { 8 } else { 1 };
    let total = reserved + fat_secs + root_secs + clusters * u32::from(spc) + rng.below(u64::from(spc)) as u32;
    VolCfg {
        source: VolSource::Format,
        fat,
        bps,
        spc,
        fats,
        root_entries,
        total_sectors: total,
        extra_sectors: if rng.chance(1, 3) { rng.range(1, 9) as u32 } else { 0 },
        ballast_keep: None,
        ballast_mode: rng.below(3) as u8,
        fsinfo_mode: if rng.chance(2, 3) { 0 } else { rng.range(1, 2) as u8 },
        hint: None,
        status: 0,
        label: rng.chance(1, 4),
        tail_taken: 0,
        dirty_medium: false,
    }
}

/// Draw until the library's formatter accepts and the resulting width is the wanted one.
pub fn draw_valid(rng: &mut Rng, fat: u8, small_root: bool) -> (VolCfg, Store) {
    for _ in 0..200 {
        let v = draw_vol(rng, fat, small_root);
        if let Ok(s) = format_store(&v) {
            if let Ok(g) = refdec::geo(&s) {
                if g.fat_bits == u32::from(fat) {
                    return (v, s);
                }
            }
        }
    }
    panic!("harness: could not draw a formattable volume for FAT{}", fat);
}
