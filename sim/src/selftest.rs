//! Harness self-tests: (1) the independent decoder is anchored on the two Linux-made images of the repository,
//! (2) the builder's output is clean under the decoder, (3) determinism: the same seeds give the same traces,
//! observation hashes and final images whatever the worker count and run order.
use crate::disk::Store;
use crate::props;
use crate::refdec;
use crate::runner;

fn anchor(path: &str, want_clusters: u32, want_free: u32, bits: u32) -> Result<(), String> {
    let data = std::fs::read(path).map_err(|e| format!("{}: {}", path, e))?;
    let img = Store::from_bytes(&data);
    let p = refdec::parse(&img)?;
    if !p.findings.is_empty() {
        return Err(format!("{}: fsck findings on a Linux-made image: {:?}", path, p.findings));
    }
    if p.geo.fat_bits != bits || p.geo.n_clusters != want_clusters || p.free != want_free || p.geo.cluster_bytes != 512 {
        return Err(format!("{}: geometry FAT{} clusters {} free {} cluster {}", path, p.geo.fat_bits, p.geo.n_clusters, p.free, p.geo.cluster_bytes));
    }
    let mut names: Vec<String> = p.objs.iter().skip(1).map(|o| refdec::path_str(&o.path)).collect();
    names.sort();
    let want = ["/long.txt", "/short.txt", "/very", "/very-long-dir-name", "/very-long-dir-name/very-long-file-name.txt", "/very/long", "/very/long/path", "/very/long/path/test.txt"];
    if names != want {
        return Err(format!("{}: tree {:?}", path, names));
    }
    let text = "Rust is cool!\n";
    let short = p.find(&["short.txt".encode_utf16().collect()]).ok_or("short.txt missing")?;
    if p.file_content(&img, short) != text.as_bytes() {
        return Err(format!("{}: short.txt content", path));
    }
    let long = p.find(&["long.txt".encode_utf16().collect()]).ok_or("long.txt missing")?;
    if p.file_content(&img, long) != text.repeat(1000).as_bytes() {
        return Err(format!("{}: long.txt content", path));
    }
    let root = &p.dirs[0];
    if root.labels.len() != 1 || &root.slots[root.labels[0]].b[..11] != b"Test!      " {
        return Err(format!("{}: label", path));
    }
    Ok(())
}

fn determinism() -> Result<String, String> {
    let mut report = String::new();
    for prop in ["C01", "C02", "C03", "C05", "C11", "C12", "C18"] {
        let fl = props::flavor_for(prop);
        let n = 400u64;
        let f = |i: u64| {
            let o = props::engine_outcome(crate::rng::run_seed(7, 1, i), &fl);
            (o.stats.steps, o.stats.device_calls, o.stats.interleave_hash, o.stats.state_hashes.iter().fold(0u64, |a, b| a.rotate_left(5) ^ b), o.violation.is_some())
        };
        std::env::set_var("VERIF_THREADS", "16");
        let a = runner::par_map(n, &f);
        std::env::set_var("VERIF_THREADS", "3");
        let b = runner::par_map(n, &f);
        std::env::set_var("VERIF_THREADS", "1");
        let c: Vec<_> = (0..n).rev().map(|i| f(i)).collect::<Vec<_>>().into_iter().rev().collect();
        if a != b || a != c {
            let k = (0..n as usize).find(|i| a[*i] != b[*i] || a[*i] != c[*i]).unwrap();
            return Err(format!("{}: run {} differs between executions: {:?} / {:?} / {:?}", prop, k, a[k], b[k], c[k]));
        }
        report.push_str(&format!("{}: {} seeds x 3 executions (16 workers, 3 workers, 1 worker in reverse order) identical\n", prop, n));
    }
    std::env::remove_var("VERIF_THREADS");
    Ok(report)
}

pub fn run() -> i32 {
    let mut bad = false;
    for (p, n, f, b) in [("/repo/resources/fat12.img", 1955u32, 1920u32, 12u32), ("/repo/resources/fat16.img", 4927, 4892, 16)] {
        match anchor(p, n, f, b) {
            Ok(()) => println!("selftest: refdec decodes {} as expected (tree, contents, label, free count, fsck clean)", p),
            Err(e) => {
                eprintln!("selftest FAILED: {}", e);
                bad = true;
            }
        }
    }
    // builder vs decoder
    let mut clean = 0;
    for i in 0..300u64 {
        let mut r = crate::rng::Rng::new(i ^ 0x5E1F);
        let cfg = crate::c08::draw_refgen_cfg(&mut r, Default::default(), false);
        if let crate::types::VolSource::Refgen(s) = cfg.vol.source {
            if let Ok(b) = crate::refgen::build(&cfg.vol, s) {
                match refdec::parse(&b.store) {
                    Ok(p) if p.findings.is_empty() && p.objs.len() == b.truth.len() + 1 => clean += 1,
                    Ok(p) => {
                        eprintln!("selftest FAILED: refgen volume {} not clean: {:?} ({} vs {} objects)", i, p.findings.first(), p.objs.len(), b.truth.len() + 1);
                        bad = true;
                    }
                    Err(e) => {
                        eprintln!("selftest FAILED: refgen volume {} unparseable: {}", i, e);
                        bad = true;
                    }
                }
            }
        }
    }
    println!("selftest: {} builder-made volumes clean under the independent decoder", clean);
    match determinism() {
        Ok(r) => print!("selftest: determinism\n{}", r),
        Err(e) => {
            eprintln!("selftest FAILED: determinism: {}", e);
            bad = true;
        }
    }
    if bad {
        2
    } else {
        0
    }
}
