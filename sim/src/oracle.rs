//! Oracles evaluated after every call, at checkpoints and at session end.
use crate::disk::{FaultPlan, Store, WriteRec};
use crate::engine::*;
use crate::exec::Outcome;
use crate::model::{NodeId, E, ROOT};
use crate::refdec::{self, LfnVerdict, Parsed, Region, SlotClass};
use crate::types::*;
use std::collections::{BTreeMap, BTreeSet};
use std::rc::Rc;

pub struct PostCtx<'x> {
    pub before_store: Option<Store>,
    pub before: Rc<Parsed>,
    pub out: &'x Outcome,
    pub flux: Vec<NodeId>,
    pub open_files: Vec<NodeId>,
    pub op: &'x Op,
}

const TS_FIELDS: [usize; 11] = [13, 14, 15, 16, 17, 18, 19, 22, 23, 24, 25];

fn units(path: &[String]) -> Vec<Vec<u16>> {
    path.iter().map(|s| s.encode_utf16().collect()).collect()
}

/// Take the write log of the phase that just ended; C13 and the structural-change tracking of C12.
pub fn account_writes(w: &mut World, phase: &str) -> Result<(), Violation> {
    let writes: Vec<WriteRec> = std::mem::take(&mut w.disk.borrow_mut().writes);
    if writes.is_empty() {
        return Ok(());
    }
    let before = w.last_parsed.clone();
    w.last_parsed = None;
    process_writes(w, &writes, before.as_deref(), phase)
}

pub fn process_writes(w: &mut World, writes: &[WriteRec], before: Option<&Parsed>, phase: &str) -> Result<(), Violation> {
    let g = w.geo.clone();
    w.session_writes += writes.len() as u64;
    if w.cfg.oracles.crash_log {
        w.crash.writes.extend_from_slice(writes);
    }
    let fsinfo_lo = u64::from(g.fsinfo_sector) * u64::from(g.bps);
    for wr in writes {
        let in_fsinfo = g.fat_bits == 32 && wr.off >= fsinfo_lo && wr.off + u64::from(wr.len) <= fsinfo_lo + 512;
        if !in_fsinfo {
            w.fsinfo_writes_only = false;
        }
        if w.cfg.oracles.read_only && w.stats.sessions > u64::from(w.cfg.ro_skip_sessions) {
            let excused = in_fsinfo && w.stats_called_unusable;
            if !excused {
                return Err(viol(
                    "C13",
                    "write-in-read-only-session",
                    format!("{}: device write of {} byte(s) at {:#x}", phase, wr.len, wr.off),
                    w.step_no,
                ));
            }
        }
        // everything written must be inside the declared volume
        if (w.cfg.oracles.write_audit || w.cfg.oracles.offsets) && wr.off + u64::from(wr.len) > g.vol_bytes {
            return Err(viol(
                if w.cfg.oracles.offsets { "C20" } else { "C11" },
                "write-beyond-volume",
                format!("{}: write of {} byte(s) at {:#x}, volume ends at {:#x}", phase, wr.len, wr.off, g.vol_bytes),
                w.step_no,
            ));
        }
    }
    // structural-change detection (C12) needs payloads
    if w.cfg.oracles.dirty_bit && !w.structural {
        let live: BTreeSet<u64> = match before {
            Some(p) => p.dirs.iter().flat_map(|d| d.entries.iter().map(|e| e.sfn_off)).collect(),
            None => BTreeSet::new(),
        };
        'outer: for wr in writes {
            if wr.data.len() != wr.pre.len() {
                continue;
            }
            for (i, (a, b)) in wr.data.iter().zip(wr.pre.iter()).enumerate() {
                if a == b {
                    continue;
                }
                let off = wr.off + i as u64;
                if off == g.status_off {
                    continue;
                }
                if g.fat_bits == 32 && off >= fsinfo_lo && off < fsinfo_lo + 512 {
                    continue;
                }
                let slot = off & !31;
                let fld = (off - slot) as usize;
                if TS_FIELDS.contains(&fld) && live.contains(&slot) {
                    continue;
                }
                w.structural = true;
                break 'outer;
            }
        }
    }
    Ok(())
}

pub fn check_stats(w: &mut World, st: &fatfs::FileSystemStats) -> Result<(), Violation> {
    let p = w.parsed()?;
    if st.free_clusters() != p.free {
        return Err(viol(
            "C05",
            "free-count-differs",
            format!("stats().free_clusters() = {}, raw FAT has {} free entries", st.free_clusters(), p.free),
            w.step_no,
        ));
    }
    if st.total_clusters() != p.geo.n_clusters || u64::from(st.cluster_size()) != p.geo.cluster_bytes {
        return Err(viol(
            "C05",
            "geometry-differs",
            format!("stats total={} cluster={}, raw {} / {}", st.total_clusters(), st.cluster_size(), p.geo.n_clusters, p.geo.cluster_bytes),
            w.step_no,
        ));
    }
    Ok(())
}

fn tolerated(f: &refdec::Finding, flux_paths: &[String]) -> bool {
    matches!(f.kind, "size-chain-mismatch" | "empty-file-with-cluster" | "link-to-free" | "cross-link" | "duplicate-entry")
        && f.subj.iter().any(|s| flux_paths.contains(s))
}

pub fn fsck_check(w: &World, p: &Parsed, flux: &[NodeId]) -> Result<(), Violation> {
    let flux_paths: Vec<String> = flux.iter().map(|n| refdec::path_str(&units(&w.model.path_of(*n)))).collect();
    for f in &p.findings {
        if w.faulted && !matches!(f.kind, "cross-link" | "cycle" | "out-of-range-link" | "chain-link-to-free" | "duplicate-entry") {
            continue;
        }
        if w.faulted && w.faulted_in_rename && f.kind == "duplicate-entry" {
            // rename writes the destination entry before it deletes the source entry (so that an error cannot lose the
            // object); an error between the two leaves both. Reported under its own class (a recorded finding).
            return Err(viol("C03", "both-names-after-failed-rename", f.detail.clone(), w.step_no));
        }
        if tolerated(f, &flux_paths) {
            continue;
        }
        if f.kind == "lost-cluster" {
            // chains of in-flux files whose entry still says "no cluster" are unreferenced by design until flush
            // one chain per open file with pending changes: its entry (first cluster) is only written at flush, so
            // until then the chain it really owns may be unreferenced (entry says "none", or names an older chain
            // that was freed by truncate and possibly re-used since)
            let budget = flux.iter().filter(|n| !w.model.nodes[**n].content.is_empty()).count();
            let lost: BTreeSet<u32> = p.lost.iter().copied().collect();
            let mut pointed: BTreeSet<u32> = BTreeSet::new();
            for c in &p.lost {
                let v = refdec::fat_val(&w.disk.borrow().store, &p.geo, *c);
                if lost.contains(&v) {
                    pointed.insert(v);
                }
            }
            let heads = lost.len() - pointed.len();
            if heads <= budget {
                continue;
            }
            return Err(viol("C03", f.kind, format!("{} ({} unreferenced chain(s), {} open file(s) with deferred entry update)", f.detail, heads, budget), w.step_no));
        }
        return Err(viol("C03", f.kind, f.detail.clone(), w.step_no));
    }
    Ok(())
}

/// model tree == independent decode of the raw image
pub fn raw_tree_check(w: &World, p: &Parsed, flux: &[NodeId], prop: &str) -> Result<(), Violation> {
    let img = &w.disk.borrow().store;
    let want = w.model.flatten();
    let mut got: Vec<(Vec<Vec<u16>>, bool, usize)> = p.objs.iter().enumerate().skip(1).map(|(i, o)| (o.path.clone(), o.is_dir, i)).collect();
    got.sort();
    let flux_paths: Vec<Vec<Vec<u16>>> = flux.iter().map(|n| units(&w.model.path_of(*n))).collect();
    if want.len() != got.len() || want.iter().zip(got.iter()).any(|(a, b)| a.0 != b.0 || a.1 != b.1) {
        let a: Vec<String> = want.iter().map(|x| refdec::path_str(&x.0)).collect();
        let b: Vec<String> = got.iter().map(|x| refdec::path_str(&x.0)).collect();
        let only_model: Vec<&String> = a.iter().filter(|x| !b.contains(x)).collect();
        let only_disk: Vec<&String> = b.iter().filter(|x| !a.contains(x)).collect();
        return Err(viol(
            prop,
            "raw-tree-differs",
            format!("only in model: {:?}; only on disk: {:?} ({} vs {} objects)", only_model, only_disk, a.len(), b.len()),
            w.step_no,
        ));
    }
    for (a, b) in want.iter().zip(got.iter()) {
        if a.1 || flux_paths.contains(&a.0) {
            continue;
        }
        let o = &p.objs[b.2];
        if o.size as usize != a.2.len() {
            return Err(viol(prop, "raw-size-differs", format!("{}: on disk {} bytes, model {}", refdec::path_str(&a.0), o.size, a.2.len()), w.step_no));
        }
        let content = p.file_content(img, b.2);
        if content != a.2 {
            let first = content.iter().zip(a.2.iter()).position(|(x, y)| x != y).unwrap_or(content.len().min(a.2.len()));
            return Err(viol(prop, "raw-content-differs", format!("{}: first difference at byte {}", refdec::path_str(&a.0), first), w.step_no));
        }
    }
    Ok(())
}

/// model tree == what the library lists and reads (through `root`)
pub fn lib_tree_check(w: &mut World, root: &FDir, open: &[NodeId], prop: &str, with_times: bool) -> Result<(), Violation> {
    let skip: BTreeSet<Vec<Vec<u16>>> = open.iter().map(|n| units(&w.model.path_of(*n))).collect();
    let mut items = vec![];
    let now = w.clock.get();
    match guarded(|| walk_lib(root, &[], &skip, &mut items, 0)) {
        Guarded::Done(Ok(())) => {}
        Guarded::Done(Err(e)) => return Err(viol(prop, "walk-failed", format!("{:?}", e), w.step_no)),
        Guarded::Panic(m) => return Err(viol(prop, "panic", format!("while listing the tree: {}", m), w.step_no)),
        Guarded::Hang => return Err(viol(prop, "hang", "while listing the tree".into(), w.step_no)),
    }
    items.sort();
    let want = w.model.flatten();
    if want.len() != items.len() || want.iter().zip(items.iter()).any(|(a, b)| a.0 != b.path || a.1 != b.is_dir) {
        let a: Vec<String> = want.iter().map(|x| refdec::path_str(&x.0)).collect();
        let b: Vec<String> = items.iter().map(|x| refdec::path_str(&x.path)).collect();
        let only_model: Vec<&String> = a.iter().filter(|x| !b.contains(x)).collect();
        let only_lib: Vec<&String> = b.iter().filter(|x| !a.contains(x)).collect();
        return Err(viol(prop, "lib-tree-differs", format!("only in model: {:?}; only in listing: {:?}", only_model, only_lib), w.step_no));
    }
    for (a, b) in want.iter().zip(items.iter()) {
        if let Some(c) = &b.content {
            if *c != a.2 {
                return Err(viol(
                    prop,
                    "lib-content-differs",
                    format!("{}: read {} bytes, model has {}", refdec::path_str(&a.0), c.len(), a.2.len()),
                    w.step_no,
                ));
            }
            if b.size != a.2.len() as u64 {
                return Err(viol(prop, "lib-size-differs", format!("{}: len() {} vs {}", refdec::path_str(&a.0), b.size, a.2.len()), w.step_no));
            }
        }
    }
    {
        let by_path: BTreeMap<Vec<Vec<u16>>, &LibItem> = items.iter().map(|i| (i.path.clone(), i)).collect();
        for n in w.model.live_nodes() {
            if n == ROOT {
                continue;
            }
            if let Some(it) = by_path.get(&units(&w.model.path_of(n))) {
                if it.attrs != w.model.nodes[n].attrs & 0x3F {
                    return Err(viol(prop, "attributes-differ", format!("{}: listed attributes {:#04x}, model {:#04x}", w.model.path_string(n), it.attrs, w.model.nodes[n].attrs), w.step_no));
                }
            }
        }
    }
    if with_times {
        let by_path: BTreeMap<Vec<Vec<u16>>, &LibItem> = items.iter().map(|i| (i.path.clone(), i)).collect();
        for n in w.model.live_nodes() {
            if n == ROOT || !w.model.nodes[n].times_known || open.contains(&n) {
                continue;
            }
            let node = &w.model.nodes[n];
            let Some(it) = by_path.get(&units(&w.model.path_of(n))) else { continue };
            if it.created != node.created {
                return Err(viol("C18", "created-differs", format!("{}: {:?} vs model {:?}", w.model.path_string(n), it.created, node.created), w.step_no));
            }
            if node.is_dir {
                continue;
            }
            if it.modified != node.modified {
                return Err(viol("C18", "modified-differs", format!("{}: {:?} vs model {:?}", w.model.path_string(n), it.modified, node.modified), w.step_no));
            }
            if it.accessed != node.accessed {
                return Err(viol("C18", "accessed-differs", format!("{}: {:?} vs model {:?}", w.model.path_string(n), it.accessed, node.accessed), w.step_no));
            }
        }
    }
    // the walk itself read every closed non-empty file: with access-date updating on, that stamps them
    if w.cfg.access_date {
        for n in w.model.files() {
            if !open.contains(&n) && !w.model.nodes[n].content.is_empty() {
                w.model.nodes[n].accessed = now.date();
            }
        }
    }
    Ok(())
}

struct SlotOwner {
    /// path of the object whose entry the slot belongs to (None: free / deleted / end / label)
    owner: Option<Vec<Vec<u16>>>,
    label: bool,
    live: bool,
}

fn slot_owners(p: &Parsed) -> BTreeMap<u64, SlotOwner> {
    let mut m = BTreeMap::new();
    for (oi, o) in p.objs.iter().enumerate() {
        let Some(di) = o.dir_idx else { continue };
        let d = &p.dirs[di];
        for s in &d.slots {
            m.insert(s.off, SlotOwner { owner: None, label: s.class() == SlotClass::Label, live: false });
        }
        for (ei, e) in d.entries.iter().enumerate() {
            // dot entries belong to the directory itself
            let owner = if !d.is_root && ei < 2 && (e.is_dot() || e.is_dotdot()) {
                o.path.clone()
            } else {
                let mut pth = o.path.clone();
                pth.push(e.name_units(&refdec::oem_dec));
                pth
            };
            for so in &e.slot_offs {
                m.insert(*so, SlotOwner { owner: Some(owner.clone()), label: false, live: true });
            }
        }
        let _ = oi;
    }
    m
}

/// Audit of the bytes that differ between the image before and after a call, against the ownership
/// derived from the image *before* the call (C08 raw diff, C10 entry rules, C11 regions, C18 foreign stamps,
/// C01 failure atomicity).
pub fn diff_audit(w: &mut World, ctx: &PostCtx) -> Result<(), Violation> {
    let Some(before_store) = &ctx.before_store else { return Ok(()) };
    let o = w.cfg.oracles.clone();
    let d = w.disk.borrow();
    let after = &d.store;
    let ranges = after.diff(before_store);
    if ranges.is_empty() {
        return Ok(());
    }
    let p = &*ctx.before;
    let g = &p.geo;
    let mut touch: BTreeSet<&Vec<Vec<u16>>> = ctx.out.touch_paths.iter().collect();
    // an open file with pending changes may still be described on disk by a stale entry (e.g. pointing at a chain it
    // already gave back): what that entry claims cannot be held against other operations
    let mut flux_paths: Vec<Vec<Vec<u16>>> = ctx.flux.iter().map(|n| units(&w.model.path_of(*n))).collect();
    flux_paths.extend(ctx.out.flux_paths.iter().cloned());
    for fp in &flux_paths {
        touch.insert(fp);
    }
    let owners = slot_owners(p);
    let user_failure = matches!(&ctx.out.res, Err(e) if !matches!(e, E::Io(_) | E::IoOther(_) | E::NoSpace));
    let prop_region = if o.write_audit { "C11" } else if o.raw_diff { "C08" } else { "C11" };
    let step = w.step_no;
    let mut fat_entries: BTreeSet<u32> = BTreeSet::new();
    for (off0, len0) in ranges {
        let mut off = off0;
        let end = off0 + len0;
        while off < end {
            let reg = p.region(before_store, off);
            // advance in chunks that stay inside one slot / one cluster / one region byte
            let mut next = off + 1;
            match &reg {
                Region::Fat(copy) => {
                    let rel = off - g.fat_copy_off(*copy);
                    let c = match g.fat_bits {
                        12 => (rel * 2 / 3) as u32,
                        16 => (rel / 2) as u32,
                        _ => (rel / 4) as u32,
                    };
                    fat_entries.insert(c);
                    if g.fat_bits == 12 {
                        fat_entries.insert(c + 1);
                        if c > 0 {
                            fat_entries.insert(c - 1);
                        }
                    }
                    if !g.mirroring() && *copy != g.active_fat() && (o.fat_copies || o.write_audit || o.raw_diff) {
                        return Err(viol("C10", "inactive-fat-changed", format!("FAT copy {} changed at {:#x}, active copy is {}", copy, off, g.active_fat()), step));
                    }
                }
                Region::StatusByte | Region::FsInfo => {}
                Region::Boot | Region::BackupBoot | Region::ReservedOther | Region::RootSlack | Region::Slack | Region::Beyond | Region::BadCluster(_) => {
                    if o.write_audit || o.raw_diff || o.offsets {
                        return Err(viol(prop_region, "forbidden-region-changed", format!("byte {:#x} in {:?} changed by {:?}", off, reg, ctx.op), step));
                    }
                }
                Region::FreeCluster(_) => {
                    next = (off + 32).min(end);
                }
                Region::Cluster(_, None) => {
                    if !ctx.out.is_file_op && (o.write_audit || o.raw_diff) {
                        return Err(viol(prop_region, "unowned-cluster-changed", format!("byte {:#x} in {:?} changed by {:?}", off, reg, ctx.op), step));
                    }
                    next = (off + 32).min(end);
                }
                Region::FixedRoot | Region::Cluster(_, Some(_)) => {
                    let (is_dir, opath) = match &reg {
                        Region::FixedRoot => (true, &p.objs[0].path),
                        Region::Cluster(_, Some(oi)) => (p.objs[*oi].is_dir, &p.objs[*oi].path),
                        _ => unreachable!(),
                    };
                    if !is_dir {
                        if !touch.contains(opath) && (o.write_audit || o.raw_diff) {
                            return Err(viol(prop_region, "foreign-file-data-changed", format!("byte {:#x} of {} changed by {:?}", off, refdec::path_str(opath), ctx.op), step));
                        }
                        if user_failure && o.fail_atomic {
                            return Err(viol("C01", "failed-call-changed-data", format!("{:?} failed with {:?} but changed data of {}", ctx.op, ctx.out.res, refdec::path_str(opath)), step));
                        }
                        next = (off + 32).min(end);
                    } else {
                        if !touch.contains(opath) && (o.write_audit || o.raw_diff) {
                            return Err(viol(prop_region, "foreign-directory-changed", format!("byte {:#x} of directory {} changed by {:?}", off, refdec::path_str(opath), ctx.op), step));
                        }
                        let slot = off & !31;
                        let fld = (off - slot) as usize;
                        next = (slot + 32).min(end);
                        let ts_only = (off..next).all(|x| TS_FIELDS.contains(&((x - slot) as usize)));
                        let _ = fld;
                        if let Some(so) = owners.get(&slot) {
                            if so.label && (o.raw_diff || o.write_audit) {
                                return Err(viol(prop_region, "label-slot-changed", format!("slot {:#x}", slot), step));
                            }
                            if let Some(owner) = &so.owner {
                                if !touch.contains(owner) {
                                    if ts_only && o.stamps {
                                        return Err(viol("C18", "foreign-timestamp-changed", format!("timestamp bytes of {} changed by {:?}", refdec::path_str(owner), ctx.op), step));
                                    }
                                    if o.raw_diff || o.write_audit {
                                        return Err(viol(prop_region, "foreign-slot-changed", format!("slot {:#x} of {} changed by {:?}", slot, refdec::path_str(owner), ctx.op), step));
                                    }
                                }
                                if user_failure && o.fail_atomic && !ts_only {
                                    return Err(viol(
                                        "C01",
                                        "failed-call-changed-entry",
                                        format!("{:?} failed with {:?} but changed slot {:#x} of {}", ctx.op, ctx.out.res, slot, refdec::path_str(owner)),
                                        step,
                                    ));
                                }
                            } else if user_failure && o.fail_atomic && so.live {
                                return Err(viol("C01", "failed-call-changed-entry", format!("slot {:#x}", slot), step));
                            }
                        }
                    }
                }
            }
            if user_failure && o.fail_atomic {
                match reg {
                    Region::FixedRoot | Region::Cluster(_, Some(_)) => {}
                    Region::StatusByte | Region::FsInfo => {}
                    _ => {
                        return Err(viol(
                            "C01",
                            "failed-call-changed-image",
                            format!("{:?} failed with {:?} but changed byte {:#x} ({:?})", ctx.op, ctx.out.res, off, reg),
                            step,
                        ));
                    }
                }
            }
            off = next.max(off + 1);
        }
    }
    // FAT entry rules
    if o.fat_copies || o.raw_diff || o.write_audit {
        let touch_objs: BTreeSet<usize> = ctx.out.touch_paths.iter().chain(flux_paths.iter()).filter_map(|t| p.find(t)).collect();
        for c in fat_entries {
            if u64::from(c) >= g.fat_capacity() {
                continue;
            }
            let b = refdec::fat_raw(before_store, g, g.active_fat(), c);
            let a = refdec::fat_raw(after, g, g.active_fat(), c);
            if a == b {
                continue;
            }
            if c < 2 || c > g.max_cluster() {
                return Err(viol("C10", "reserved-fat-entry-changed", format!("FAT entry {} changed {:#x} -> {:#x} (clusters are 2..={})", c, b, a, g.max_cluster()), step));
            }
            if g.fat_bits == 32 && (a ^ b) & 0xF000_0000 != 0 {
                return Err(viol("C10", "fat32-reserved-bits-lost", format!("FAT entry {}: {:#010x} -> {:#010x}", c, b, a), step));
            }
            let bv = if g.fat_bits == 32 { b & 0x0FFF_FFFF } else { b };
            if bv == g.bad_mark() {
                return Err(viol("C10", "bad-cluster-reused", format!("FAT entry {} was marked bad, now {:#x}", c, a), step));
            }
            if bv != 0 && (o.raw_diff || o.write_audit) {
                match p.owner.get(&c) {
                    Some(oi) if touch_objs.contains(oi) => {}
                    Some(oi) => {
                        return Err(viol(
                            prop_region,
                            "foreign-chain-changed",
                            format!("FAT entry {} of {} changed {:#x} -> {:#x} by {:?}", c, refdec::path_str(&p.objs[*oi].path), b, a, ctx.op),
                            step,
                        ))
                    }
                    None => {
                        if !ctx.out.is_file_op {
                            return Err(viol(prop_region, "unowned-chain-changed", format!("FAT entry {} ({:#x} -> {:#x}) by {:?}", c, b, a, ctx.op), step));
                        }
                    }
                }
            }
        }
    }
    Ok(())
}

/// Audit of every individual device write of the call (C11): region and ownership before the call.
pub fn write_audit(w: &mut World, ctx: &PostCtx, writes: &[WriteRec]) -> Result<(), Violation> {
    let Some(before_store) = &ctx.before_store else { return Ok(()) };
    let p = &*ctx.before;
    let g = &p.geo;
    let mut touch: BTreeSet<&Vec<Vec<u16>>> = ctx.out.touch_paths.iter().collect();
    let mut flux_paths: Vec<Vec<Vec<u16>>> = ctx.flux.iter().map(|n| units(&w.model.path_of(*n))).collect();
    flux_paths.extend(ctx.out.flux_paths.iter().cloned());
    for fp in &flux_paths {
        touch.insert(fp);
    }
    let step = w.step_no;
    for wr in writes {
        if wr.len == 0 {
            continue;
        }
        w.stats.audited_writes += 1;
        let last = wr.off + u64::from(wr.len) - 1;
        for (k, off) in [wr.off, last].iter().enumerate() {
            let reg = p.region(before_store, *off);
            let ok = match &reg {
                Region::StatusByte => wr.len == 1,
                Region::FsInfo => g.fat_bits == 32,
                Region::Fat(c) => g.mirroring() || *c == g.active_fat(),
                Region::FixedRoot => true,
                Region::FreeCluster(_) => true,
                Region::Cluster(_, Some(oi)) => touch.contains(&p.objs[*oi].path),
                Region::Cluster(_, None) => ctx.out.is_file_op,
                _ => false,
            };
            if !ok {
                return Err(viol(
                    "C11",
                    "write-outside-allowed-region",
                    format!("{:?}: device write of {} byte(s) at {:#x}: {} byte lies in {:?}", ctx.op, wr.len, wr.off, if k == 0 { "first" } else { "last" }, reg),
                    step,
                ));
            }
        }
        // a data/directory write must not straddle two clusters
        if wr.off >= g.data_off {
            let c0 = (wr.off - g.data_off) / g.cluster_bytes;
            let c1 = (last - g.data_off) / g.cluster_bytes;
            if c0 != c1 {
                return Err(viol("C11", "write-straddles-clusters", format!("{:?}: write of {} byte(s) at {:#x}", ctx.op, wr.len, wr.off), step));
            }
        }
    }
    Ok(())
}

pub fn fat_mirror_check(w: &World) -> Result<(), Violation> {
    let g = &w.geo;
    if g.nfats < 2 || !g.mirroring() {
        return Ok(());
    }
    let d = w.disk.borrow();
    for c in 1..g.nfats {
        if !d.store.eq_ranges(g.fat_copy_off(0), g.fat_copy_off(c), g.fat_bytes) {
            return Err(viol("C10", "fat-copies-differ", format!("FAT copy {} differs from copy 0", c), w.step_no));
        }
    }
    Ok(())
}

pub fn dirty_check(w: &World, phase: &str) -> Result<(), Violation> {
    let d = w.disk.borrow();
    let st = d.store.u8_at(w.geo.status_off);
    if st & w.mount_status != w.mount_status {
        return Err(viol("C12", "mount-time-status-bits-cleared", format!("{}: status byte {:#04x}, at mount {:#04x}", phase, st, w.mount_status), w.step_no));
    }
    if w.structural && st & 1 == 0 {
        return Err(viol("C12", "dirty-bit-not-set", format!("{}: a structural change was written but the status byte is {:#04x}", phase, st), w.step_no));
    }
    Ok(())
}

/// C05: `stats()` against the table, right now. On multi-hundred-million-cluster volumes a recount (count unknown after
/// a dirty mount) is legitimate but costs two device calls per cluster: the query is skipped there unless the count
/// is maintained.
fn stats_vs_table(w: &mut World, s: &mut Session) -> Result<(), Violation> {
    if !(w.count_known || w.geo.n_clusters <= 2_000_000) {
        return Ok(());
    }
    let saved_mode = w.disk.borrow().log_mode;
    w.disk.borrow_mut().log_mode = if saved_mode == crate::disk::LogMode::Off { saved_mode } else { crate::disk::LogMode::Meta };
    w.disk.borrow_mut().calls.clear();
    let r = guarded(|| s.fs.stats());
    w.disk.borrow_mut().calls.clear();
    w.disk.borrow_mut().log_mode = saved_mode;
    w.disk.borrow_mut().writes.clear();
    match r {
        Guarded::Done(Ok(st)) => check_stats(w, &st)?,
        Guarded::Done(Err(e)) => return Err(viol("C05", "stats-failed", format!("{:?}", e), w.step_no)),
        Guarded::Panic(m) => return Err(viol("C05", "panic", format!("stats(): {}", m), w.step_no)),
        Guarded::Hang => return Err(viol("C05", "hang", "stats()".into(), w.step_no)),
    }
    w.count_known = true;
    Ok(())
}

pub fn post_step(w: &mut World, s: &mut Session, ctx: &PostCtx) -> Result<(), Violation> {
    let o = w.cfg.oracles.clone();
    let writes: Vec<WriteRec> = std::mem::take(&mut w.disk.borrow_mut().writes);
    w.disk.borrow_mut().disarm();
    if !writes.is_empty() {
        w.last_parsed = None;
    }
    process_writes(w, &writes, Some(&ctx.before), "call")?;
    if o.free_count && !w.faulted && w.geo.fat_bits == 32 && w.geo.n_clusters <= 2_000_000 && !writes.is_empty() && crate::rng::hash_bytes(w.cfg.dev_seed ^ 0xC5, &(w.step_no as u64).to_le_bytes()) % 64 == 0 {
        if let Some(b) = &ctx.before_store {
            crash_count_check(w, b, &writes, "the call")?;
        }
    }
    if o.crash_log {
        let widx = w.crash.writes.len();
        match ctx.op {
            Op::Flush { .. } | Op::CloseFile { .. } if ctx.out.res.is_ok() => {
                if let Some(n) = ctx.out.file_node {
                    let epoch = w.disk.borrow().epoch;
                    w.crash.flush_points.push(FlushPoint { widx, epoch, node: n, path: w.model.path_of(n).join("/"), content: w.model.nodes[n].content.clone(), step: w.step_no });
                }
            }
            Op::Write { .. } | Op::Truncate { .. } | Op::SetTime { .. } => {
                if let Some(n) = ctx.out.file_node {
                    // tracked only while unmodified: the modification starts with the first write of this call
                    w.crash.untrack.push((widx - writes.len(), n));
                }
            }
            Op::Remove { .. } | Op::Rename { .. } => {
                if let Some(v) = ctx.out.victim {
                    let mut stack = vec![v];
                    while let Some(n) = stack.pop() {
                        w.crash.untrack.push((widx - writes.len(), n));
                        stack.extend(w.model.nodes[n].children.iter().copied());
                    }
                }
            }
            _ => {}
        }
    }
    if o.offsets {
        offsets_check(w, ctx)?;
    }
    let after = w.parsed()?;
    if o.free_count && o.fault_resilient {
        // C05, "removing gives back all clusters", across one storage error: if the failed remove() had not touched the
        // table yet, the repeated call finds everything as it was and must release the whole chain
        if let Some((chain, what)) = w.pending_reclaim.take() {
            if matches!(ctx.op, Op::Remove { .. }) && !w.step_injected && matches!(ctx.out.res, Ok(()) | Err(E::NotFound)) {
                let d = w.disk.borrow();
                let still: Vec<u32> = chain.iter().copied().filter(|c| refdec::fat_val(&d.store, &w.geo, *c) != 0).collect();
                if !still.is_empty() {
                    return Err(viol(
                        "C05",
                        "clusters-not-reclaimed-after-failed-remove",
                        format!("remove of {} failed with a storage error before any table entry was changed; the repeated call returned {:?} and {} of its {} cluster(s) are still allocated (first {:?})", what, ctx.out.res, still.len(), chain.len(), &still[..still.len().min(4)]),
                        w.step_no,
                    ));
                }
                w.stats.reclaim_after_retry_checked += 1;
            }
        }
        if w.step_injected && w.stats.hard_faults == 1 {
            if let (Op::Remove { .. }, Some(vp), Some(bs)) = (ctx.op, ctx.out.victim_path.as_ref(), ctx.before_store.as_ref()) {
                if let Some(oi) = ctx.before.find(vp) {
                    let g = &w.geo;
                    let (lo, hi) = (g.fat_off, g.fat_off + u64::from(g.nfats) * g.fat_bytes);
                    let table_touched = w.disk.borrow().store.diff(bs).iter().any(|(off, len)| *off < hi && off + len > lo);
                    if !table_touched && !ctx.before.objs[oi].chain.is_empty() {
                        w.pending_reclaim = Some((ctx.before.objs[oi].chain.clone(), refdec::path_str(vp)));
                    }
                }
            }
        }
    }
    if w.faulted {
        if o.fsck {
            fsck_check(w, &after, &ctx.flux)?;
        }
        if o.dirty_bit && o.fault_resilient {
            dirty_check(w, "after call (storage errors earlier in the run)")?;
        }
        if o.free_count && o.fault_resilient {
            // the count is compared with the table itself: no model needed
            stats_vs_table(w, s)?;
        }
        return Ok(());
    }
    if o.fsck {
        fsck_check(w, &after, &ctx.flux)?;
    }
    if o.raw_tree {
        let pr = if w.prop == "C02" || w.prop == "C04" { w.prop.clone() } else { "C01".to_string() };
        raw_tree_check(w, &after, &ctx.flux, &pr)?;
    }
    if o.write_audit {
        write_audit(w, ctx, &writes)?;
    }
    if o.write_audit || o.raw_diff || o.fat_copies || o.stamps || o.fail_atomic {
        if o.fail_atomic {
            w.stats.fail_atomic_checked += u64::from(ctx.out.res.is_err());
        }
        diff_audit(w, ctx)?;
    }
    if o.fat_copies {
        fat_mirror_check(w)?;
    }
    if o.alias_rules && ctx.out.mutating {
        alias_check(w, &after)?;
    }
    if o.dirty_bit {
        dirty_check(w, "after call")?;
    }
    if o.write_audit {
        let d = w.disk.borrow();
        let dmg = d.store.canary_damage();
        if !dmg.is_empty() {
            return Err(viol("C11", "canary-after-volume-damaged", format!("offsets {:x?}", dmg), w.step_no));
        }
        if w.cfg.vol.source == VolSource::Format {
            let dmg = crate::vol::reserved_canary_damage(&d.store, &w.geo);
            if !dmg.is_empty() {
                return Err(viol("C11", "reserved-area-canary-damaged", format!("offsets {:x?}", dmg), w.step_no));
            }
        }
    }
    if o.free_count {
        stats_vs_table(w, s)?;
    }
    if o.free_count && ctx.out.res.is_ok() {
        // C05: removing an object gives back exactly the clusters it owned (its chain as decoded before the call)
        if let (Op::Remove { .. }, Some(_)) = (ctx.op, ctx.out.victim) {
            if let Some(vp) = ctx.out.victim_path.as_ref() {
                if let Some(oi) = ctx.before.find(vp) {
                    let owned = ctx.before.objs[oi].chain.len() as u32;
                    if after.free != ctx.before.free + owned {
                        return Err(viol(
                            "C05",
                            "clusters-not-reclaimed",
                            format!("remove of {} (chain of {} cluster(s)): free entries {} -> {}", refdec::path_str(vp), owned, ctx.before.free, after.free),
                            w.step_no,
                        ));
                    }
                }
            }
        }
    }
    if o.lib_tree {
        let root = s.fs.root_dir();
        lib_tree_check(w, &root, &ctx.open_files, "C01", false)?;
        let wr: Vec<WriteRec> = std::mem::take(&mut w.disk.borrow_mut().writes);
        if !wr.is_empty() {
            w.last_parsed = None;
            process_writes(w, &wr, None, "listing")?;
        }
    }
    // reach probes
    if ctx.out.mutating && ctx.out.res.is_ok() {
        let grew = after.dirs.iter().map(|d| d.chain.len()).sum::<usize>() > ctx.before.dirs.iter().map(|d| d.chain.len()).sum::<usize>();
        if grew {
            w.stats.dir_grew += 1;
        }
        let per = (w.geo.cluster_bytes / 32) as usize;
        for d in &after.dirs {
            for e in &d.entries {
                if e.slot_offs.len() > 1 && !d.is_root {
                    let a = e.first_slot_idx / per;
                    let b = (e.first_slot_idx + e.slot_offs.len() - 1) / per;
                    if a != b {
                        w.stats.lfn_straddle += 1;
                    }
                }
            }
        }
    }
    if w.stats.state_hashes.len() < 4096 {
        let mut h = w.model.shape_hash();
        for d in &after.dirs {
            h = crate::rng::hash_bytes(h, d.class_string().as_bytes());
        }
        h = crate::rng::hash_bytes(h, &after.free.to_le_bytes());
        w.stats.state_hashes.push(h);
    }
    Ok(())
}

/// C20: every device call of the step stayed inside the declared volume.
pub fn offsets_check(w: &World, _ctx: &PostCtx) -> Result<(), Violation> {
    let d = w.disk.borrow();
    for c in &d.calls {
        let end = c.off.saturating_add(u64::from(c.len));
        if c.kind != crate::disk::CallKind::Flush && end > w.geo.vol_bytes && c.kind != crate::disk::CallKind::Seek {
            return Err(viol("C20", "access-beyond-volume", format!("{:?} of {} byte(s) at {:#x}, volume ends at {:#x}", c.kind, c.len, c.off, w.geo.vol_bytes), w.step_no));
        }
        if c.kind == crate::disk::CallKind::Seek && c.off > w.geo.vol_bytes {
            return Err(viol("C20", "seek-beyond-volume", format!("seek to {:#x}, volume ends at {:#x}", c.off, w.geo.vol_bytes), w.step_no));
        }
    }
    Ok(())
}

/// Checkpoint: every handle dropped; model == raw decode == library listing == second mount of a snapshot;
/// extents reproduce contents.
pub fn checkpoint(w: &mut World, s: &mut Session) -> Result<(), Violation> {
    w.stats.checkpoints += 1;
    let before = w.parsed()?;
    w.disk.borrow_mut().arm(crate::disk::FaultPlan { budget: 2_000_000, ..Default::default() });
    match guarded(|| {
        s.files.clear();
        s.dirs.truncate(1);
    }) {
        Guarded::Done(()) => {}
        Guarded::Panic(m) => return Err(viol(&w.prop.clone(), "panic", format!("dropping handles: {}", m), w.step_no)),
        Guarded::Hang => return Err(viol(&w.prop.clone(), "hang", "dropping handles".into(), w.step_no)),
    }
    let writes: Vec<WriteRec> = std::mem::take(&mut w.disk.borrow_mut().writes);
    w.disk.borrow_mut().disarm();
    if !writes.is_empty() {
        w.last_parsed = None;
    }
    process_writes(w, &writes, Some(&before), "handle-drop")?;
    if w.faulted {
        return Ok(());
    }
    let o = w.cfg.oracles.clone();
    let p = w.parsed()?;
    let prop = if o.checkpoint { "C04" } else { "C01" };
    if o.fsck {
        fsck_check(w, &p, &[])?;
    }
    if o.dirty_bit {
        dirty_check(w, "checkpoint")?;
    }
    if o.fat_copies {
        fat_mirror_check(w)?;
    }
    if o.checkpoint || o.raw_tree {
        raw_tree_check(w, &p, &[], prop)?;
    }
    if o.checkpoint || o.lib_tree || o.stamps {
        // (ii) second mount on a copy-on-write snapshot while the first session is still mounted
        let snap = w.disk.borrow().store.clone();
        let sd = std::rc::Rc::new(std::cell::RefCell::new(crate::disk::DiskState::new(snap)));
        sd.borrow_mut().log_mode = crate::disk::LogMode::Off;
        let opts = fs_options(&w.cfg, &w.clock);
        let fs2 = match guarded(|| Fs::new(crate::disk::SimDisk::new(sd.clone()), opts)) {
            Guarded::Done(Ok(f)) => f,
            Guarded::Done(Err(e)) => return Err(viol(prop, "snapshot-mount-failed", format!("{:?}", e), w.step_no)),
            Guarded::Panic(m) => return Err(viol(prop, "panic", format!("snapshot mount: {}", m), w.step_no)),
            Guarded::Hang => return Err(viol(prop, "hang", "snapshot mount".into(), w.step_no)),
        };
        {
            // the snapshot walk must not advance the model's access dates twice: do it on a model copy
            let saved = w.model.clone();
            let root2 = fs2.root_dir();
            let r = lib_tree_check(w, &root2, &[], prop, o.stamps);
            w.model = saved;
            r?;
            if o.dirty_bit && w.structural {
                match fs2.read_status_flags() {
                    Ok(fl) => {
                        if !fl.dirty() {
                            return Err(viol("C12", "abandoned-image-not-dirty", "snapshot of a structurally changed session mounts as clean".into(), w.step_no));
                        }
                    }
                    Err(e) => return Err(viol("C12", "status-read-failed", format!("{:?}", e), w.step_no)),
                }
            }
        }
        // the snapshot session is simply dropped (its unmount writes go to the private copy)
        let _ = guarded(|| drop(fs2));
        // (i') through the live session, with extents
        let root = s.fs.root_dir();
        lib_tree_check(w, &root, &[], prop, false)?;
        if o.checkpoint {
            extents_check(w, s, &p)?;
        }
        let wr: Vec<WriteRec> = std::mem::take(&mut w.disk.borrow_mut().writes);
        if !wr.is_empty() {
            w.last_parsed = None;
            process_writes(w, &wr, None, "checkpoint-walk")?;
        }
    }
    if o.stamps {
        raw_stamps_check(w)?;
    }
    Ok(())
}

/// raw date/time words of every closed file equal the model (independent decode of the timestamps)
pub fn raw_stamps_check(w: &mut World) -> Result<(), Violation> {
    let p = w.parsed()?;
    for n in w.model.live_nodes() {
        if n == ROOT || !w.model.nodes[n].times_known {
            continue;
        }
        let node = &w.model.nodes[n];
        let Some(oi) = p.find(&units(&w.model.path_of(n))) else { continue };
        let Some(e) = &p.objs[oi].entry else { continue };
        let dec_date = |d: u16| (1980 + (d >> 9), (d >> 5) & 0xF, d & 0x1F);
        let c = node.created;
        let want_cdate = ((c.y - 1980) << 9) | (c.mo << 5) | c.d;
        let want_ctime = (c.h << 11) | (c.mi << 5) | (c.s / 2);
        let want_tenth = (c.s % 2) * 100 + c.ms / 10;
        if e.cdate != want_cdate || e.ctime != want_ctime || u16::from(e.ctime_tenth) != want_tenth {
            return Err(viol(
                "C18",
                "raw-created-differs",
                format!("{}: raw {:#06x}/{:#06x}/{} vs model {:?}", w.model.path_string(n), e.cdate, e.ctime, e.ctime_tenth, c),
                w.step_no,
            ));
        }
        if node.is_dir {
            continue;
        }
        let m = node.modified;
        let want_mdate = ((m.y - 1980) << 9) | (m.mo << 5) | m.d;
        let want_mtime = (m.h << 11) | (m.mi << 5) | (m.s / 2);
        if e.mdate != want_mdate || e.mtime != want_mtime {
            return Err(viol("C18", "raw-modified-differs", format!("{}: raw {:#06x}/{:#06x} vs model {:?}", w.model.path_string(n), e.mdate, e.mtime, m), w.step_no));
        }
        if dec_date(e.adate) != node.accessed {
            return Err(viol("C18", "raw-accessed-differs", format!("{}: raw {:?} vs model {:?}", w.model.path_string(n), dec_date(e.adate), node.accessed), w.step_no));
        }
    }
    Ok(())
}

/// File::extents(): the byte ranges, read straight from the device, reproduce the content and equal the
/// independent chain geometry.
pub fn extents_check(w: &mut World, s: &Session, p: &Parsed) -> Result<(), Violation> {
    let root = s.fs.root_dir();
    for n in w.model.files() {
        let path = w.model.path_of(n).join("/");
        let r = guarded(|| -> Result<Vec<(u64, u32)>, FErr> {
            let mut f = root.open_file(&path)?;
            let mut v = vec![];
            for e in f.extents() {
                let e = e?;
                v.push((e.offset, e.size));
            }
            Ok(v)
        });
        let ext = match r {
            Guarded::Done(Ok(v)) => v,
            Guarded::Done(Err(e)) => return Err(viol("C04", "extents-failed", format!("{}: {:?}", path, e), w.step_no)),
            Guarded::Panic(m) => return Err(viol("C04", "panic", format!("extents of {}: {}", path, m), w.step_no)),
            Guarded::Hang => return Err(viol("C04", "hang", format!("extents of {}", path), w.step_no)),
        };
        let d = w.disk.borrow();
        let mut bytes = vec![];
        for (off, sz) in &ext {
            bytes.extend_from_slice(&d.store.get(*off, *sz as usize));
        }
        if bytes != w.model.nodes[n].content {
            return Err(viol("C04", "extents-content-differs", format!("{}: extents {:?} give {} bytes, model has {}", path, ext, bytes.len(), w.model.nodes[n].content.len()), w.step_no));
        }
        if let Some(oi) = p.find(&units(&w.model.path_of(n))) {
            let o = &p.objs[oi];
            let mut left = u64::from(o.size);
            let mut want = vec![];
            for c in &o.chain {
                let sz = left.min(p.geo.cluster_bytes);
                want.push((p.geo.cluster_off(*c), sz as u32));
                left -= sz;
            }
            if want != ext {
                return Err(viol("C04", "extents-geometry-differs", format!("{}: extents {:?}, independent chain geometry {:?}", path, ext, want), w.step_no));
            }
        }
    }
    Ok(())
}

/// C05 across a power cut: for prefixes of the device writes of one phase (all of them for unmount / drop, a sample for
/// an ordinary call), the image is mounted on a fresh device and `stats()` must equal the free entries of that image's
/// table, counted independently.
pub fn crash_count_check(w: &mut World, base: &Store, writes: &[WriteRec], phase: &str) -> Result<(), Violation> {
    let g = w.geo.clone();
    let n = writes.len();
    let mut ks: Vec<usize> = (0..=n).collect();
    if n > 12 {
        ks = vec![0, 1, 2, n - 1, n];
        for i in 0..3u64 {
            ks.push((crate::rng::hash_bytes(w.cfg.dev_seed ^ i, &(w.step_no as u64).to_le_bytes()) % (n as u64 + 1)) as usize);
        }
        ks.sort_unstable();
        ks.dedup();
    }
    let mut img = base.clone();
    let mut applied = 0usize;
    for k in ks {
        for wr in &writes[applied..k] {
            if wr.data.len() != wr.len as usize {
                return Ok(());
            }
            img.write_at(wr.off, &wr.data);
        }
        applied = k;
        let want = (2..g.n_clusters + 2).filter(|c| refdec::fat_val(&img, &g, *c) == 0).count() as u32;
        let sd = std::rc::Rc::new(std::cell::RefCell::new(crate::disk::DiskState::new(img.clone())));
        sd.borrow_mut().log_mode = crate::disk::LogMode::Off;
        sd.borrow_mut().arm(FaultPlan { budget: 2_000_000 + 5 * u64::from(g.n_clusters), ..FaultPlan::default() });
        let opts = fs_options(&w.cfg, &w.clock);
        let r = guarded(move || -> Result<u32, FErr> {
            let fs = Fs::new(crate::disk::SimDisk::new(sd), opts)?;
            let n = fs.stats()?.free_clusters();
            std::mem::drop(fs);
            Ok(n)
        });
        w.stats.unmount_crash_images += 1;
        let what = format!("power cut after device write {} of the {} that {} issued", k, n, phase);
        match r {
            Guarded::Done(Ok(got)) => {
                if got != want {
                    return Err(viol("C05", "free-count-differs-after-power-cut", format!("{}: remount reports {} free clusters, the table has {}", what, got, want), w.step_no));
                }
            }
            Guarded::Done(Err(e)) => return Err(viol("C05", "remount-failed-after-power-cut", format!("{}: {:?}", what, e), w.step_no)),
            Guarded::Panic(m) => return Err(viol("C05", "panic", format!("{}: {}", what, m), w.step_no)),
            Guarded::Hang => return Err(viol("C05", "hang", what, w.step_no)),
        }
    }
    Ok(())
}

/// Oracles at the end of a session (after unmount / drop / abandonment).
pub fn after_session(w: &mut World, how: u8, pre_end: &Store) -> Result<(), Violation> {
    let o = w.cfg.oracles.clone();
    let g = w.geo.clone();
    if w.faulted && !(o.dirty_bit && o.fault_resilient && !w.unmount_failed && !w.stop) {
        return Ok(());
    }
    if o.dirty_bit {
        let st = w.disk.borrow().store.u8_at(g.status_off);
        if how < 2 {
            if st != w.mount_status {
                return Err(viol("C12", "status-not-restored", format!("after {}: status byte {:#04x}, at mount {:#04x}", if how == 0 { "unmount()" } else { "drop" }, st, w.mount_status), w.step_no));
            }
        } else if w.structural && st & 1 == 0 {
            return Err(viol("C12", "abandoned-image-not-dirty", format!("status byte {:#04x}", st), w.step_no));
        }
    }
    if w.faulted && !(o.free_count && o.fault_resilient && !w.unmount_failed && !w.stop) {
        return Ok(());
    }
    if w.faulted {
        // after storage errors: what a clean unmount leaves in the FS-info sector is either "unknown" or the truth
        // (or, if the count was never usable in the session, what was found there)
        if g.fat_bits == 32 && how < 2 {
            let fo = u64::from(g.fsinfo_sector) * u64::from(g.bps);
            let (cnt, st) = {
                let d = w.disk.borrow();
                (d.store.u32_at(fo + 488), d.store.u8_at(g.status_off))
            };
            let was = pre_end.u32_at(fo + 488);
            let p = w.parsed()?;
            if st & 1 == 0 && cnt != 0xFFFF_FFFF && cnt != p.free && !(cnt == was && !w.count_known) {
                return Err(viol("C05", "fsinfo-free-count-wrong", format!("after storage errors earlier in the session and a successful unmount: FS-info says {} free, raw FAT has {}", cnt, p.free), w.step_no));
            }
        }
        return Ok(());
    }
    if o.free_count && g.fat_bits == 32 && how < 2 {
        let d = w.disk.borrow();
        let fo = u64::from(g.fsinfo_sector) * u64::from(g.bps);
        let lead = d.store.u32_at(fo);
        let struc = d.store.u32_at(fo + 484);
        let trail = d.store.u32_at(fo + 508);
        if lead != 0x4161_5252 || struc != 0x6141_7272 || trail != 0xAA55_0000 {
            return Err(viol("C05", "fsinfo-signatures-damaged", format!("{:#x} {:#x} {:#x}", lead, struc, trail), w.step_no));
        }
        let cnt = d.store.u32_at(fo + 488);
        let hint = d.store.u32_at(fo + 492);
        drop(d);
        let p = w.parsed()?;
        if w.count_known {
            if cnt != p.free {
                return Err(viol("C05", "fsinfo-free-count-wrong", format!("FS-info says {} free, raw FAT has {}", cnt, p.free), w.step_no));
            }
        } else if cnt != 0xFFFF_FFFF && cnt != p.free {
            // the count was never usable in this session: it may stay as it was found or be unknown
            let was = pre_end.u32_at(fo + 488);
            if cnt != was {
                return Err(viol("C05", "fsinfo-free-count-wrong", format!("FS-info says {} free, raw FAT has {}", cnt, p.free), w.step_no));
            }
        }
        if hint != 0xFFFF_FFFF && (hint < 2 || hint > g.n_clusters + 2) {
            let was = pre_end.u32_at(fo + 492);
            if hint != was || w.session_writes > 0 && !w.fsinfo_writes_only {
                if hint != was {
                    return Err(viol("C05", "fsinfo-hint-out-of-range", format!("next-free hint {} (clusters 2..={})", hint, g.n_clusters + 1), w.step_no));
                }
            }
        }
    }
    if o.read_only && w.stats.sessions > u64::from(w.cfg.ro_skip_sessions) && w.session_writes > 0 {
        let excused = w.fsinfo_writes_only && w.stats_called_unusable && g.fat_bits == 32;
        if !excused {
            return Err(viol("C13", "write-in-read-only-session", format!("{} device write(s) in the session", w.session_writes), w.step_no));
        }
    }
    if o.fsck || o.raw_tree || o.checkpoint {
        let p = w.parsed()?;
        if o.fsck {
            fsck_check(w, &p, &[])?;
        }
        if o.raw_tree || o.checkpoint {
            raw_tree_check(w, &p, &[], if o.checkpoint { "C04" } else { "C01" })?;
        }
    }
    if o.fat_copies {
        fat_mirror_check(w)?;
    }
    if o.write_audit {
        let d = w.disk.borrow();
        let dmg = d.store.canary_damage();
        if !dmg.is_empty() {
            return Err(viol("C11", "canary-after-volume-damaged", format!("offsets {:x?}", dmg), w.step_no));
        }
    }
    let _ = LfnVerdict::None;
    Ok(())
}

/// C16: raw 11-byte short names are legal 8.3 names (upper case, legal characters, space padding only at the
/// tail of each part) -- uniqueness and the long-name checksum tie are findings of the independent fsck.
pub fn alias_check(w: &mut World, p: &Parsed) -> Result<(), Violation> {
    let mut hash_form = 0u64;
    let mut tail_form = 0u64;
    fn legal(b: u8) -> bool {
        b.is_ascii_uppercase() || b.is_ascii_digit() || b"!#$%&'()-@^_`{}~".contains(&b)
    }
    for d in &p.dirs {
        for (ei, e) in d.entries.iter().enumerate() {
            if !d.is_root && ei < 2 && (e.is_dot() || e.is_dotdot()) {
                continue;
            }
            let n = &e.sfn;
            if let Some(t) = n[..8].iter().position(|b| *b == b'~') {
                if t >= 4 && n[t - 4..t].iter().all(|b| b.is_ascii_hexdigit()) && t <= 6 {
                    hash_form += 1;
                } else {
                    tail_form += 1;
                }
            }
            let mut bad: Option<String> = None;
            if n[0] == b' ' || n[0] == 0xE5 || n[0] == 0 || n[0] == 0x05 {
                bad = Some("illegal first byte".into());
            }
            for part in [&n[..8], &n[8..]] {
                let len = part.iter().rposition(|x| *x != b' ').map_or(0, |x| x + 1);
                for (i, b) in part.iter().enumerate() {
                    if i < len && !legal(*b) {
                        bad = Some(format!("byte {:#04x} is not a legal short-name character", b));
                    }
                }
            }
            if let Some(why) = bad {
                return Err(viol("C16", "illegal-short-name", format!("{:?} for long name {}: {}", String::from_utf8_lossy(n), String::from_utf16_lossy(&e.name_units(&|_| '?')), why), w.step_no));
            }
            // the alias must belong to this long name: every LFN slot carries the checksum of these 11 bytes
            if let LfnVerdict::Broken(why) = &e.lfn {
                return Err(viol("C16", "alias-not-tied-to-long-name", format!("{:?}: {}", String::from_utf8_lossy(n), why), w.step_no));
            }
        }
        for f in &d.findings {
            if f.kind == "dup-short" {
                return Err(viol("C16", "duplicate-short-name", f.detail.clone(), w.step_no));
            }
        }
    }
    w.stats.alias_hash_form = w.stats.alias_hash_form.max(hash_form);
    w.stats.alias_tail_form = w.stats.alias_tail_form.max(tail_form);
    Ok(())
}
