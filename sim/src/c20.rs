//! C20: large volumes -- 64-bit addressing, the very last clusters, allocation wrap-around. Sparse SimDisks
//! of 4 GiB .. 2 TiB with the FS-info next-free hint placed at / before / past the last cluster.
use crate::exec;
use crate::gen::{Gen, Profile};
use crate::props;
use crate::refdec;
use crate::rng::Rng;
use crate::runner::{Batch, RunOutcome};
use crate::types::*;
use serde_json::json;

pub fn big_cfg(r: &mut Rng, which: u64) -> RunCfg {
    // (bps, spc, total_sectors)
    let shapes: [(u16, u8, u32); 8] = [
        (512, 8, 8_388_608),           // 4 GiB
        (512, 8, 8_388_608 + 8),       // 4 GiB + 1 cluster
        (512, 8, 8_388_608 + 8 + 3),   // + slack sectors
        (512, 64, 0x8000_0000),        // 1 TiB
        (512, 64, 0x8000_0040),        // 1 TiB + 1 cluster
        (512, 64, 0xFFFF_FFFF),        // 2 TiB - 512 B
        (4096, 1, 0x0FFF_FFF4 + 70_000), // cluster-count limit region with 4 KiB sectors
        (1024, 2, 0x1FFF_FFE8 + 140_000),
    ];
    let (bps, spc, total) = shapes[(which % shapes.len() as u64) as usize];
    let vol = VolCfg {
        source: VolSource::Format,
        fat: 32,
        bps,
        spc,
        fats: r.range(1, 2) as u8,
        root_entries: 512,
        total_sectors: total,
        extra_sectors: if total < 0xFFFF_0000 { r.range(1, 8) as u32 } else { 0 },
        ballast_keep: None,
        ballast_mode: 0,
        fsinfo_mode: 0,
        hint: None,
        status: 0,
        label: r.chance(1, 4),
        tail_taken: *r.pick(&[0u8, 0, 1, 2, 5]),
        dirty_medium: false,
    };
    RunCfg {
        vol,
        access_date: r.chance(1, 4),
        strict: true,
        oem: Oem::Lossy,
        benign: BenignCfg::default(),
        oracles: Oracles { offsets: true, fsck: true, raw_tree: true, file_model: true, checkpoint: true, fat_copies: true, free_count: true, outcome: true, write_audit: true, ..Default::default() },
        start: crate::clock::Stamp { y: 2040, mo: 1, d: 1, h: 0, mi: 0, s: 0, ms: 0 },
        dev_seed: r.next_u64(),
        ro_skip_sessions: 0,
    }
}

pub fn run(seed: u64) -> RunOutcome {
    let mut r = Rng::new(seed);
    let mut o = RunOutcome::empty();
    let which = r.below(8);
    let mut cfg = big_cfg(&mut r, which);
    // geometry of the volume the library will make (needed to place the hint): format once, cheaply, via the probe
    let q = crate::c06::FmtReq {
        bps: cfg.vol.bps,
        total_sectors: cfg.vol.total_sectors,
        explicit_total: true,
        extra_sectors: 0,
        bytes_per_cluster: Some(u32::from(cfg.vol.spc) * u32::from(cfg.vol.bps)),
        fats: cfg.vol.fats,
        root_entries: Some(512),
        fat: Some(32),
        label: None,
        volume_id: None,
        media: None,
        drive_num: None,
        benign: false,
    };
    let n = match crate::c06::probe(&q) {
        crate::c06::Probe::Sector(g) => g.n_clusters,
        crate::c06::Probe::Rejected => {
            *o.counters.entry("format_rejected_shape".into()).or_insert(0) += 1;
            o.evaluations = 0;
            return o;
        }
        crate::c06::Probe::Bad(e) => {
            let v = crate::engine::viol("C20", "format-boot-sector-invalid", e, 0);
            o.violation = Some((v.clone(), Replay { property: "C20".into(), kind: "c20".into(), seed, cfg, steps: vec![], violation: Some(v) }));
            return o;
        }
    };
    // hint: at, just before, just past the last cluster (= n + 1), or unknown
    let last = n + 1;
    let taken = u32::from(cfg.vol.tail_taken);
    let mut stale_hint = false;
    cfg.vol.hint = Some(match r.below(12) {
        // cluster numbers whose low 16-bit word is zero / all ones (the directory entry stores the number as two words)
        8 | 9 => {
            let k = r.range(1, u64::from(last >> 16).max(1)) as u32;
            ((k << 16) + r.range(0, 2) as u32 - 1).min(last)
        }
        // ... and whose low 24 bits are zero / all ones (a table entry *value* like that must still count as "in use");
        // these runs start with a session that is abandoned, so the next one scans from the same, now stale, hint
        10 | 11 => {
            stale_hint = true;
            let sh = if last >> 24 > 0 && r.chance(2, 3) { 24 } else { 16 };
            let k = r.range(1, u64::from(last >> sh).max(1)) as u32;
            ((k << sh) - 1).min(last - 2)
        }
        0 => last - 1,
        1 => last,
        2 => last + 1,
        3 => last + 2,
        4 => last - taken.min(last - 3),
        5 => last - taken.min(last - 3) - 1,
        6 => 0xFFFF_FFFF,
        _ => last - r.below(40) as u32,
    });
    let mut prof = Profile::mixed();
    prof.steps = r.range(3, 24) as usize;
    prof.clients = r.range(1, 2) as u8;
    prof.max_write = (u32::from(cfg.vol.spc) * u32::from(cfg.vol.bps) * 3 + 1).min(200_000);
    prof.w_write = 30;
    prof.w_create_dir = 16;
    prof.w_stats = 0; // a recount on a 268M-cluster volume is half a billion device calls; stats is compared after every call while the count is maintained
    prof.w_truncate = 14;
    prof.w_seek = 10;
    prof.w_open_file = 10;
    prof.keep = 800;
    prof.gambit_pct = 50;
    prof.w_checkpoint = 6;
    prof.w_remount = 5;
    prof.invalid_names = 10;
    if stale_hint {
        prof.steps += 8;
    }
    let mut g = Gen::new(r.next_u64(), prof);
    if stale_hint {
        let cl = u64::from(cfg.vol.spc) * u64::from(cfg.vol.bps);
        let q = &mut g.queue;
        q.push_back(Op::CreateFile { base: 0, path: "first.bin".into(), keep: Some(0) });
        q.push_back(Op::Write { f: 0, len: (cl * r.range(2, 3) + r.below(cl)).min(200_000) as u32, fill: r.next_u64() });
        q.push_back(Op::CloseFile { f: 0 });
        q.push_back(Op::Remount { how: 2 });
        q.push_back(Op::CreateFile { base: 0, path: "second.bin".into(), keep: Some(0) });
        q.push_back(Op::Write { f: 0, len: (cl + r.below(cl)).min(200_000) as u32, fill: r.next_u64() });
        q.push_back(Op::CloseFile { f: 0 });
    }
    let res = exec::run(cfg.clone(), "C20", &mut g, 70);
    o.evaluations = res.stats.steps.max(1);
    o.stats = res.stats;
    *o.counters.entry(format!("volumes_{}_GiB", (u64::from(cfg.vol.total_sectors) * u64::from(cfg.vol.bps)) >> 30)).or_insert(0) += 1;
    o.sample = Some(json!({"seed": seed, "config": props::cfg_summary(&cfg), "clusters": n, "hint": cfg.vol.hint, "tail_taken": cfg.vol.tail_taken,
        "history": res.trace.iter().take(10).map(|s| format!("{:?}", s.op)).collect::<Vec<_>>()}));
    if let Some(mut v) = res.violation {
        if v.property != "HARNESS" && v.property != "C20" {
            v.detail = format!("[{} {}] {}", v.property, v.class, v.detail);
            v.property = "C20".into();
        }
        let rep = Replay { property: "C20".into(), kind: "engine".into(), seed, cfg, steps: res.trace, violation: Some(v.clone()) };
        o.violation = Some((v, rep));
    }
    o
}

pub fn batches(tier: &str, seed: u64) -> Vec<Batch<'static>> {
    let n = if tier == "quick" { 320u64 } else { 20_000 };
    vec![Batch { name: "short histories on sparse 4 GiB .. 2 TiB FAT32 volumes, hint at / before / past the last cluster or at a 16-bit word boundary of the cluster number".into(), runs: n, f: Box::new(move |i| run(crate::rng::run_seed(seed, 95, i))) }]
}
