#![allow(dead_code, unused_imports)]
mod c01x;
mod c02x;
mod c06;
mod c07;
mod c08;
mod c09;
mod c14;
mod c15;
mod c16;
mod c17;
mod c18x;
mod c19;
mod c20;
mod clock;
mod disk;
mod engine;
mod exec;
mod gen;
mod model;
mod oracle;
mod props;
mod refdec;
mod refgen;
mod rng;
mod selftest;
mod runner;
mod types;
mod vol;

use runner::{Agg, CheckReport};
use std::time::Instant;
use types::*;

fn usage() -> ! {
    eprintln!("usage: fatsim check <Cxx> [--tier quick|thorough] [--seed N] | fatsim replay <file> | fatsim debug <Cxx> <batch> <index> | fatsim selftest");
    std::process::exit(2);
}

fn arg_val(args: &[String], name: &str) -> Option<String> {
    args.iter().position(|a| a == name).and_then(|i| args.get(i + 1).cloned())
}

const ENGINE_PROPS: &[&str] = &["C01", "C02", "C03", "C04", "C05", "C10", "C11", "C12", "C13", "C18"];

struct Plan {
    batches: Vec<runner::Batch<'static>>,
    level: &'static str,
    rule: String,
    exhaustive: bool,
    assumptions: Vec<String>,
    extra: serde_json::Value,
}

fn plan(prop: &str, tier: &str, seed: u64) -> Plan {
    let base_assume = vec!["refdec (independent decoder), the tree model and SimDisk are trusted".to_string()];
    if let Some(p) = ENGINE_PROPS.iter().copied().find(|x| *x == prop) {
        let mut batches = props::engine_batches(p, tier, seed);
        if p == "C01" {
            batches.insert(0, c01x::batch(if tier == "quick" { 2 } else { 3 }));
        }
        if p == "C18" {
            batches.insert(0, c18x::batch());
        }
        if p == "C02" {
            batches.push(c02x::batch(tier, seed));
        }
        return Plan {
            batches,
            level: if p == "C12" { "fault_enumeration" } else { "exploration" },
            rule: "one evaluation = one API call of a seeded multi-client history on a swarm-drawn volume; distinct = distinct abstract states (model tree shape + slot-class string of every directory + free count) reached".into(),
            exhaustive: false,
            assumptions: base_assume,
            extra: serde_json::json!({}),
        };
    }
    match prop {
        "C06" => {
            let (batches, exhaustive) = c06::batches(tier, seed);
            Plan {
                batches,
                level: "exploration",
                rule: "one evaluation = one format request (full format checked by the independent decoder and by mounting, or a boot-sector probe through a device that fails beyond byte 511); distinct = distinct resulting layouts (FAT width, sector size, cluster size, FAT size, root entries, cluster count) / rejected request shapes / layout change points".into(),
                exhaustive,
                assumptions: vec!["refdec geometry rules are taken from the Microsoft FAT specification".into(), "exhaustive=true refers to the sub-space 'default options x every total sector count 1..2^32-1' (boot-sector level); the option space is sampled".into()],
                extra: serde_json::json!({}),
            }
        }
        "C07" => Plan {
            batches: c07::batches(tier, seed),
            level: "fault_enumeration",
            rule: "one evaluation = one corrupted boot sector / FS-info sector (corrupt_at_rest fault) mounted and used under catch_unwind and a device-call budget; single-field faults are enumerated over the field's values, combinations are seeded; distinct = distinct (base, field, value, strictness) or distinct corrupted images".into(),
            exhaustive: true,
            assumptions: vec!["refdec::coherent is the independent coherence predicate (64-bit arithmetic, FAT specification)".into(), "exhaustive=true refers to every value of every 8- and 16-bit BPB field alone on three base volumes; 32-bit fields and combinations are sampled".into()],
            extra: serde_json::json!({}),
        },
        "C14" => Plan {
            batches: c14::batches(tier, seed),
            level: "fault_enumeration",
            rule: "one evaluation = one crash image (lost_suffix fault): initial image + all device writes made durable by a flush barrier + a subset of the un-barriered writes up to the crash point, remounted and the flushed file read back; crash points = every device-write boundary after each flush point (sampled above 48 in the first batch, all in the second); distinct = distinct (crash image, file) pairs".into(),
            exhaustive: false,
            assumptions: vec!["crash model: write-call granularity, cache honours flush (no torn single write)".into(), "a file stops being tracked when it or an ancestor is modified, renamed or removed".into()],
            extra: serde_json::json!({}),
        },
        "C15" => {
            let (batches, exhaustive) = c15::batches(tier, seed);
            Plan {
                batches,
                level: "exploration",
                rule: "one evaluation = one candidate name applied through create_file / create_dir / rename into a populated directory on a SimDisk, then listed and looked up by exact name, case variants, alias and near misses, every call checked against the tree model (documented character set, Unicode folding) and the raw image; distinct = distinct candidate strings".into(),
                exhaustive,
                assumptions: vec!["exhaustive=true refers to the sub-space 'every BMP code point at first/middle/last position of a 3-character name, every ASCII character alone, every length 0..=300'; that part is input enumeration hosted on the simulator, the rest is seeded".into(), "the accepted set is restated from the documentation: ASCII alnum, $%'-_@~`!(){}.+,;=[]^#& and space, U+0080..U+FFFF, 1..=255 bytes of UTF-8".into()],
                extra: serde_json::json!({}),
            }
        }
        "C16" => Plan {
            batches: c16::batches(tier, seed),
            level: "exploration",
            rule: "one evaluation = one successful creation / rename / removal in a directory population engineered to collide on the 6-character and on the 2-character+hash alias forms; after every call the raw short names are checked (legal characters, unique, LFN checksum tie) by the independent decoder; distinct = distinct abstract directory states".into(),
            exhaustive: false,
            assumptions: vec!["the 16-bit name hash is restated in the harness only to build colliding inputs, not as an oracle".into()],
            extra: serde_json::json!({}),
        },
        "C17" => {
            let mut batches = c17::batches(tier, seed);
            let (t, sd) = (tier.to_string(), seed);
            batches.push(runner::Batch {
                name: "the same batches in the fixed-buffer build (features std,lfn,unicode; no alloc)".into(),
                runs: 1,
                f: Box::new(move |_| runner::child_outcome(&runner::alt_bin("noalloc"), &["child".into(), "C17".into(), "--tier".into(), t.clone(), "--seed".into(), sd.to_string()], "noalloc")),
            });
            Plan {
                batches,
                level: "fault_enumeration",
                rule: "one evaluation = one directory region overwritten with crafted slots (corrupt_at_rest fault) on a valid volume, then iterated through the library with every accessor called under catch_unwind and a device-call budget, compared with the independent slot decoder where its verdict is clear-cut; distinct = distinct injected directories".into(),
                exhaustive: true,
                assumptions: vec!["exhaustive=true refers to (a) the order/flag/checksum pattern space for runs of <= 3 slots and (b) every value of every byte of a 3-slot entry; slot soup is seeded".into(), "entries whose attribute byte has the low nibble 0xF but bits 4/5 set, or whose order byte has bit 5 set, are checked for totality only (the specification and the library classify them differently)".into()],
                extra: serde_json::json!({"builds": ["std+alloc+lfn+unicode (in-process)", "std+lfn+unicode (child process, fixed long-name buffer)"]}),
            }
        }
        "C19" => Plan {
            batches: c19::batches(tier, seed),
            level: "exploration",
            rule: "one evaluation = one seeded history executed in one of three builds of the library (same concrete operation list; long names up to 255 units); alloc vs fixed-buffer builds must give the same image fingerprint and observation hash for every history, unicode vs no-unicode for every ASCII-only history, and every build must satisfy its own model (ASCII-only folding when `unicode` is off); distinct = distinct (image, observation) pairs".into(),
            exhaustive: false,
            assumptions: vec!["determinism of the simulator (same trace => same device calls) makes cross-build comparison meaningful".into()],
            extra: serde_json::json!({"builds": ["std+alloc+lfn+unicode (in-process)", "std+lfn+unicode (child process)", "std+alloc+lfn (child process)"]}),
        },
        "C08" => Plan {
            batches: c08::batches(tier, seed),
            level: "exploration",
            rule: "one evaluation = one object of a builder-made (refgen) volume read through the library and compared with the builder's ground truth, or one API call of a seeded mutating session on such a volume checked by the model, the independent fsck and the raw-diff audit (bytes that differ before/after the call vs ownership decoded before the call); distinct = distinct volume images / abstract states".into(),
            exhaustive: false,
            assumptions: vec!["refgen (independent builder) and refdec (independent decoder) are trusted; refgen's output is required to be clean under refdec in every run (harness self-check)".into(), "the volume generator is input generation; the simulator contributes mutation sessions, the raw-diff oracle and device faults".into()],
            extra: serde_json::json!({}),
        },
        "C20" => Plan {
            batches: c20::batches(tier, seed),
            level: "exploration",
            rule: "one evaluation = one API call of a short seeded history on a sparse multi-GiB/TiB FAT32 SimDisk whose FS-info hint sits at / before / past the last cluster; every device call must stay inside the declared volume, contents and extents are read back at offsets computed independently in 64-bit arithmetic by the decoder, fsck / free count / FAT copies checked sparse-aware after every call; distinct = distinct abstract states".into(),
            exhaustive: false,
            assumptions: vec!["volumes are made by the library's own format_volume on a sparse device (zero-write elision); refdec walks only resident FAT pages".into()],
            extra: serde_json::json!({}),
        },
        "C09" => Plan {
            batches: c09::batches(tier, seed),
            level: "fault_enumeration",
            rule: "one evaluation = one re-execution of a history with exactly one device call of the target operation failing (position k); all k = 1..=N are enumerated per target (sampled above the cap, counted separately); distinct = distinct (operation kind, N, k) triples per scenario".into(),
            exhaustive: false,
            assumptions: vec!["the in_drop hook (--cfg fatfs_verif) tells destructor context apart".into(), "single fault per run (plus the 'device stays dead' variant)".into()],
            extra: serde_json::json!({}),
        },
        _ => {
            eprintln!("unknown property {}", prop);
            std::process::exit(2)
        }
    }
}

fn check(prop: &str, tier: &str, seed: u64) -> i32 {
    let t0 = Instant::now();
    let mut agg = Agg::default();
    let pl = plan(prop, tier, seed);
    runner::run_batches(pl.batches, &mut agg);
    let rep = CheckReport {
        property: prop.to_string(),
        tier: tier.to_string(),
        seed,
        level: pl.level.into(),
        rule: pl.rule,
        exhaustive: pl.exhaustive,
        components: runner::components(),
        assumptions: pl.assumptions,
    };
    runner::finish(rep, agg, t0, pl.extra)
}

fn main() {
    if std::env::var("VERIF_PANIC_VERBOSE").is_ok() {
        std::panic::set_hook(Box::new(|i| eprintln!("PANIC: {}", i)));
    } else {
        std::panic::set_hook(Box::new(|_| {}));
    }
    let args: Vec<String> = std::env::args().collect();
    if args.len() < 2 {
        usage();
    }
    let seed: u64 = arg_val(&args, "--seed").or_else(|| std::env::var("VERIF_SEED").ok()).and_then(|s| s.parse().ok()).unwrap_or(1);
    let tier = arg_val(&args, "--tier").or_else(|| std::env::var("VERIF_TIER").ok()).unwrap_or_else(|| "quick".into());
    match args[1].as_str() {
        "check" => {
            let prop = args.get(2).cloned().unwrap_or_else(|| usage());
            std::process::exit(check(&prop, &tier, seed));
        }
        "replay" => {
            let path = args.get(2).cloned().unwrap_or_else(|| usage());
            let txt = std::fs::read_to_string(&path).unwrap_or_else(|e| {
                eprintln!("cannot read {}: {}", path, e);
                std::process::exit(2)
            });
            let rep: Replay = serde_json::from_str(&txt).unwrap_or_else(|e| {
                eprintln!("cannot parse {}: {}", path, e);
                std::process::exit(2)
            });
            for (i, s) in rep.steps.iter().enumerate() {
                println!("  {:3} c{} {:?}{}", i, s.c, s.op, s.hard_at.map_or(String::new(), |k| format!(" !hard@{}", k)));
            }
            if let Some((k, tag)) = rep.kind.clone().split_once('@') {
                let mut r2 = rep.clone();
                r2.kind = k.to_string();
                let tmp = format!("{}.child.json", path);
                std::fs::write(&tmp, serde_json::to_string(&r2).unwrap()).unwrap();
                let st = std::process::Command::new(runner::alt_bin(tag)).args(["replay", &tmp]).status();
                let _ = std::fs::remove_file(&tmp);
                std::process::exit(st.ok().and_then(|s| s.code()).unwrap_or(2));
            }
            if rep.kind == "c19-case" {
                match c19::replay(&rep).and_then(|o| o.violation) {
                    Some((v, _)) => {
                        println!("VIOLATION property={} replay={}", v.property, path);
                        println!("  class={} detail={}", v.class, v.detail);
                        std::process::exit(1);
                    }
                    None => {
                        println!("replay of {} held", path);
                        std::process::exit(0);
                    }
                }
            }
            if rep.kind != "engine" {
                let out = c06::replay(&rep.kind, rep.seed).or_else(|| c07::replay(&rep.kind, rep.seed)).or_else(|| c14::replay(&rep.kind, rep.seed)).or_else(|| c17::replay(&rep.kind, rep.seed)).or_else(|| c08::replay(&rep.kind, rep.seed)).or_else(|| c18x::replay(&rep.kind, rep.seed)).or_else(|| c02x::replay(&rep.kind, rep.seed));
                match out {
                    Some(o) => match o.violation {
                        Some((v, _)) => {
                            println!("VIOLATION property={} replay={}", v.property, path);
                            println!("  class={} detail={}", v.class, v.detail);
                            std::process::exit(1);
                        }
                        None => {
                            println!("replay of {} held", path);
                            std::process::exit(0);
                        }
                    },
                    None => {
                        eprintln!("unknown replay kind {}", rep.kind);
                        std::process::exit(2);
                    }
                }
            }
            match runner::replay_engine(&rep) {
                Some(v) => {
                    println!("VIOLATION property={} replay={}", v.property, path);
                    println!("  class={} step={} detail={}", v.class, v.step, v.detail);
                    std::process::exit(1);
                }
                None => {
                    println!("replay of {} held", path);
                    std::process::exit(0);
                }
            }
        }
        "selftest" => std::process::exit(selftest::run()),
        "c20dbg" => {
            {
                let hwm = || std::fs::read_to_string("/proc/self/status").unwrap_or_default().lines().find(|l| l.starts_with("VmHWM")).unwrap_or("").to_string();
                let mut r = rng::Rng::new(rng::run_seed(seed, 95, 5));
                let which = r.below(8);
                let cfg = c20::big_cfg(&mut r, which);
                println!("before build {}", hwm());
                let t0 = Instant::now();
                let st = vol::format_store(&cfg.vol);
                println!("after format {:.1}s {} ok={}", t0.elapsed().as_secs_f64(), hwm(), st.is_ok());
                let mut st = st.unwrap();
                let mut rr = rng::Rng::new(1);
                let t0 = Instant::now();
                let _ = vol::dress(&mut st, &cfg.vol, &mut rr);
                println!("after dress {:.1}s {}", t0.elapsed().as_secs_f64(), hwm());
                let t0 = Instant::now();
                let p = refdec::parse(&st);
                println!("after parse {:.1}s {} ok={}", t0.elapsed().as_secs_f64(), hwm(), p.is_ok());
            }
            let (lo, hi): (u64, u64) = (args.get(2).and_then(|s| s.parse().ok()).unwrap_or(5), args.get(3).and_then(|s| s.parse().ok()).unwrap_or(6));
            for i in lo..hi {
                let t0 = Instant::now();
                let o = c20::run(rng::run_seed(seed, 95, i));
                println!("{} {:.1}s evals={} {}", i, t0.elapsed().as_secs_f64(), o.evaluations, o.sample.map(|s| s["config"].to_string()).unwrap_or_default());
                let st = std::fs::read_to_string("/proc/self/status").unwrap_or_default();
                println!("   {}", st.lines().find(|l| l.starts_with("VmHWM")).unwrap_or(""));
            }
        }
        "replay-batch" => {
            let path = args.get(2).cloned().unwrap_or_else(|| usage());
            c19::child_replay_batch(&path);
        }
        "child" => {
            // same batches, summary on stdout (used for the alternative feature builds)
            let prop = args.get(2).cloned().unwrap_or_else(|| usage());
            let batches = match prop.as_str() {
                "C17" => c17::batches(&tier, seed),
                _ => usage(),
            };
            runner::child_main(batches);
        }
        "debug" => {
            let prop = args.get(2).cloned().unwrap_or_else(|| usage());
            let stream: u64 = args.get(3).and_then(|s| s.parse().ok()).unwrap_or(1);
            let idx: u64 = args.get(4).and_then(|s| s.parse().ok()).unwrap_or(0);
            let p: &'static str = ENGINE_PROPS.iter().copied().find(|x| *x == prop).unwrap();
            let mut fl = props::flavor_for(p);
            fl.benign = stream == 2;
            let o = props::engine_outcome(rng::run_seed(seed, stream, idx), &fl);
            if let Some((v, r)) = o.violation {
                let m = runner::minimise(&r);
                println!("{}", props::cfg_summary(&m.cfg));
                for (i, s) in m.steps.iter().enumerate() {
                    println!("  {:3} c{} {:?}", i, s.c, s.op);
                }
                println!("orig: {} {} step {}: {}", v.property, v.class, v.step, v.detail);
                if let Some(v) = m.violation {
                    println!("min:  {} {} step {}: {}", v.property, v.class, v.step, v.detail);
                }
            } else {
                println!("held");
            }
        }
        _ => usage(),
    }
}
