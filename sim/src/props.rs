//! Engine-driven properties: swarm configuration per run, oracle selection per property.
use crate::clock::Stamp;
use crate::engine::{HandleView, StepSource, World};
use crate::exec;
use crate::gen::{Gen, Profile};
use crate::rng::Rng;
use crate::runner::{Batch, RunOutcome};
use crate::types::*;
use crate::vol;
use serde_json::json;

/// generator that runs a mutating phase, remounts, then a second phase (read-only sessions of C13)
pub struct Phased {
    pub a: Gen,
    pub b: Gen,
    pub stage: u8,
}

impl StepSource for Phased {
    fn next(&mut self, w: &World, h: &HandleView) -> Option<Step> {
        if self.stage == 0 {
            if let Some(s) = self.a.next(w, h) {
                return Some(s);
            }
            self.stage = 1;
            return Some(Step { c: 0, op: Op::Remount { how: (self.b.rng.below(3)) as u8 }, hard_at: None, sticky: false });
        }
        self.b.next(w, h)
    }
}

#[derive(Clone)]
pub struct Flavor {
    pub prop: &'static str,
    pub oracles: Oracles,
    pub profile: fn(&mut Rng) -> Profile,
    /// weights for FAT12 / FAT16 / FAT32
    pub fat_w: [u32; 3],
    pub ballast_pct: u32,
    pub small_root_pct: u32,
    pub benign: bool,
    pub extra_dev: bool,
    pub status_pokes: bool,
    pub two_phase_ro: bool,
    pub max_cluster_bytes: u32,
    /// percentage of runs that start from a builder-made (refgen) volume: 1-3 FATs, mirroring off, zero padding, ...
    pub refgen_pct: u32,
    /// per-mille probability that a step carries a hard device error (the run then ends with the relaxed oracle)
    pub hard_fault_pm: u32,
    /// percentage of mutating calls that meet one transient storage error and are then simply tried again
    pub retry_fault_pct: u64,
    /// percentage of small library-formatted volumes that are made on a device that was not blank
    pub dirty_medium_pct: u64,
    pub retry_fault_max_k: u64,
}

pub fn base_flavor(prop: &'static str) -> Flavor {
    Flavor {
        prop,
        oracles: Oracles::default(),
        profile: |_| Profile::mixed(),
        fat_w: [5, 3, 2],
        ballast_pct: 50,
        small_root_pct: 50,
        benign: false,
        extra_dev: true,
        status_pokes: false,
        two_phase_ro: false,
        max_cluster_bytes: 65536,
        refgen_pct: 0,
        hard_fault_pm: 0,
        retry_fault_pct: 0,
        dirty_medium_pct: 0,
        retry_fault_max_k: 12,
    }
}

pub fn flavor_for(prop: &str) -> Flavor {
    let mut f = base_flavor("C01");
    match prop {
        "C01" => {
            f.oracles = Oracles { outcome: true, lib_tree: true, raw_tree: true, fail_atomic: true, ..Default::default() };
            f.profile = |r| {
                let mut p = Profile::namespace();
                p.clients = r.range(1, 4) as u8;
                p.steps = r.range(8, 60) as usize;
                p
            };
        }
        "C02" => {
            f.prop = "C02";
            f.oracles = Oracles { file_model: true, raw_tree: true, ..Default::default() };
            f.profile = |r| {
                let mut p = Profile::fileio();
                p.clients = r.range(1, 3) as u8;
                p.steps = r.range(10, 70) as usize;
                p
            };
            f.ballast_pct = 35;
        }
        "C03" => {
            f.prop = "C03";
            f.oracles = Oracles { fsck: true, ..Default::default() };
            f.refgen_pct = 15;
            f.profile = |r| {
                let mut p = Profile::mixed();
                p.clients = r.range(1, 4) as u8;
                p.steps = r.range(8, 70) as usize;
                p
            };
            f.ballast_pct = 65;
            f.small_root_pct = 65;
        }
        "C04" => {
            f.prop = "C04";
            f.oracles = Oracles { checkpoint: true, ..Default::default() };
            f.refgen_pct = 25;
            f.profile = |r| {
                let mut p = Profile::mixed();
                p.w_checkpoint = 12;
                p.w_remount = 6;
                p.w_settime = 4;
                p.steps = r.range(8, 50) as usize;
                p
            };
        }
        "C05" => {
            f.prop = "C05";
            f.oracles = Oracles { free_count: true, outcome: true, unmount_faults: 20, ..Default::default() };
            f.profile = |r| {
                let mut p = Profile::mixed();
                p.w_write = 30;
                p.w_create_dir = 16;
                p.w_remove = 22;
                p.w_truncate = 10;
                p.w_remount = 5;
                p.w_stats = if r.chance(1, 4) { 0 } else { 4 };
                p.invalid_names = 30;
                p.steps = r.range(20, 90) as usize;
                p
            };
            f.ballast_pct = 90;
            f.fat_w = [4, 3, 4];
        }
        "C10" => {
            f.prop = "C10";
            f.dirty_medium_pct = 30;
            f.oracles = Oracles { fat_copies: true, ..Default::default() };
            f.fat_w = [4, 3, 3];
            f.refgen_pct = 50;
            f.ballast_pct = 70;
            f.profile = |r| {
                let mut p = Profile::mixed();
                p.w_write = 26;
                p.w_remove = 18;
                p.w_truncate = 8;
                p.steps = r.range(10, 70) as usize;
                p
            };
        }
        "C11" => {
            f.prop = "C11";
            f.dirty_medium_pct = 30;
            f.oracles = Oracles { write_audit: true, ..Default::default() };
            f.fat_w = [4, 3, 3];
            f.refgen_pct = 30;
        }
        "C12" => {
            f.prop = "C12";
            f.oracles = Oracles { dirty_bit: true, unmount_faults: 15, ..Default::default() };
            f.status_pokes = true;
            f.profile = |r| {
                let mut p = Profile::mixed();
                p.w_checkpoint = 8;
                p.w_remount = if r.chance(1, 2) { 8 } else { 30 };
                p.gambit_pct = 60;
                p.w_settime = 5;
                p.w_truncate = 10;
                p.w_seek = 12;
                p.w_open_file = 14;
                p.steps = r.range(6, 60) as usize;
                p
            };
        }
        "C13" => {
            f.prop = "C13";
            f.oracles = Oracles { read_only: true, ..Default::default() };
            f.two_phase_ro = true;
            f.status_pokes = true;
            f.fat_w = [3, 3, 4];
            f.refgen_pct = 35;
        }
        "C18" => {
            f.prop = "C18";
            f.oracles = Oracles { stamps: true, ..Default::default() };
            f.profile = |r| {
                let mut p = Profile::mixed();
                p.w_clock = 14;
                p.w_settime = 8;
                p.w_checkpoint = 10;
                p.w_read = 12;
                p.invalid_names = 20;
                p.steps = r.range(8, 60) as usize;
                p
            };
        }
        other => panic!("no engine flavor for {}", other),
    }
    f
}

pub fn draw_cfg(r: &mut Rng, fl: &Flavor) -> RunCfg {
    if fl.refgen_pct > 0 && r.below(100) < u64::from(fl.refgen_pct) {
        // builder-made volume (declined geometries fall back to a library-formatted one)
        for _ in 0..4 {
            let mut c = crate::c08::draw_refgen_cfg(r, fl.oracles.clone(), fl.benign);
            if fl.two_phase_ro {
                c.ro_skip_sessions = 1;
            }
            if fl.oracles.read_only {
                c.access_date = false;
            }
            if let VolSource::Refgen(s) = c.vol.source {
                if crate::refgen::build(&c.vol, s).is_ok() {
                    return c;
                }
            }
        }
    }
    let tot: u32 = fl.fat_w.iter().sum();
    let mut x = r.below(u64::from(tot)) as u32;
    let mut fat = 12u8;
    for (i, w) in fl.fat_w.iter().enumerate() {
        if x < *w {
            fat = [12u8, 16, 32][i];
            break;
        }
        x -= w;
    }
    let small_root = r.below(100) < u64::from(fl.small_root_pct);
    let mut v;
    loop {
        let (vv, _s) = vol::draw_valid(r, fat, small_root);
        if u32::from(vv.spc) * u32::from(vv.bps) <= fl.max_cluster_bytes {
            v = vv;
            break;
        }
    }
    if !fl.extra_dev {
        v.extra_sectors = 0;
    }
    if fl.dirty_medium_pct > 0 && u64::from(v.total_sectors) * u64::from(v.bps) <= (48 << 20) && Rng::new(r.next_u64()).below(100) < fl.dirty_medium_pct {
        v.dirty_medium = true;
    }
    if r.below(100) < u64::from(fl.ballast_pct) {
        v.ballast_keep = Some(match r.below(4) {
            0 => r.range(0, 3) as u32,
            1 => r.range(3, 10) as u32,
            _ => r.range(4, 40) as u32,
        });
    }
    if fat == 32 && r.chance(1, 3) {
        v.hint = Some(match r.below(5) {
            0 => 0xFFFF_FFFF,
            1 => 2,
            2 => 0,
            // cluster numbers around the 16-bit word boundary (low word zero / high word becomes non-zero)
            3 => (0x1_0000 + r.range(0, 4) - 2) as u32,
            _ => r.range(2, 70_100) as u32,
        });
    }
    if fl.status_pokes && r.chance(1, 3) {
        v.status = r.range(1, 3) as u8;
    }
    let benign = if fl.benign {
        BenignCfg { eintr: r.range(0, 120) as u32, short_read: r.range(0, 200) as u32, short_write: r.range(0, 300) as u32 }
    } else {
        BenignCfg::default()
    };
    RunCfg {
        vol: v,
        access_date: if fl.oracles.read_only { false } else { r.chance(1, 3) },
        strict: r.chance(3, 4),
        oem: if r.chance(1, 4) { Oem::Cp437 } else { Oem::Lossy },
        benign,
        oracles: fl.oracles.clone(),
        start: match r.below(6) {
            0 => Stamp { y: 1980, mo: 1, d: 1, h: 0, mi: 0, s: 0, ms: 0 },
            1 => Stamp { y: 2107, mo: 12, d: 31, h: 23, mi: 59, s: 40, ms: 0 },
            2 => Stamp { y: 2024, mo: 2, d: 29, h: 23, mi: 59, s: 58, ms: 500 },
            _ => Stamp { y: 2000 + r.below(60) as u16, mo: r.range(1, 12) as u16, d: r.range(1, 28) as u16, h: r.below(24) as u16, mi: r.below(60) as u16, s: r.below(60) as u16, ms: (r.below(100) * 10) as u16 },
        },
        dev_seed: r.next_u64(),
        ro_skip_sessions: if fl.two_phase_ro { 1 } else { 0 },
    }
}

pub fn cfg_summary(c: &RunCfg) -> String {
    format!(
        "FAT{} bps={} spc={} fats={} root={} sectors={}+{} ballast={:?} status={} access_date={} oem={:?} benign={}/{}/{}",
        c.vol.fat, c.vol.bps, c.vol.spc, c.vol.fats, c.vol.root_entries, c.vol.total_sectors, c.vol.extra_sectors, c.vol.ballast_keep, c.vol.status, c.access_date, c.oem,
        c.benign.eintr, c.benign.short_read, c.benign.short_write
    )
}

pub fn engine_outcome(seed: u64, fl: &Flavor) -> RunOutcome {
    let mut r = Rng::new(seed);
    let cfg = draw_cfg(&mut r, fl);
    let mut prof = (fl.profile)(&mut r);
    prof.hard_fault = fl.hard_fault_pm;
    let max_steps = prof.steps + 60;
    let gseed = r.next_u64();
    let res = if fl.two_phase_ro {
        let mut a = Profile::mixed();
        a.steps = r.range(5, 30) as usize;
        a.w_remount = 0;
        let mut b = Profile::readonly();
        b.steps = r.range(5, 40) as usize;
        let mut src = Phased { a: Gen::new(gseed, a), b: Gen::new(gseed ^ 0x5555, b), stage: 0 };
        exec::run(cfg.clone(), fl.prop, &mut src, max_steps + 80)
    } else if fl.retry_fault_pct > 0 {
        let mut g = crate::c14::FaultyFlush { g: Gen::new(gseed, prof), rng: Rng::new(gseed ^ 0xFA17), pending: None, pct: fl.retry_fault_pct, which: crate::c14::is_mutating, max_k: fl.retry_fault_max_k, retry: fl.oracles.fault_resilient };
        exec::run(cfg.clone(), fl.prop, &mut g, max_steps * 2)
    } else {
        let mut g = Gen::new(gseed, prof);
        exec::run(cfg.clone(), fl.prop, &mut g, max_steps)
    };
    let mut o = RunOutcome::empty();
    o.evaluations = res.stats.steps.max(1);
    o.sample = Some(json!({
        "seed": seed,
        "config": cfg_summary(&cfg),
        "history": res.trace.iter().take(14).map(|s| format!("c{} {:?}{}", s.c, s.op, s.hard_at.map_or(String::new(), |k| format!(" !hard@{}", k)))).collect::<Vec<_>>(),
        "steps": res.trace.len(),
    }));
    o.stats = res.stats;
    if let Some(v) = res.violation {
        let rep = Replay { property: fl.prop.to_string(), kind: "engine".into(), seed, cfg, steps: res.trace, violation: Some(v.clone()) };
        o.violation = Some((v, rep));
    }
    o
}

pub fn engine_batches(prop: &'static str, tier: &str, seed: u64) -> Vec<Batch<'static>> {
    let fl = flavor_for(prop);
    let (n_plain, n_benign) = match (prop, tier) {
        ("C01", "quick") => (25_000u64, 10_000u64),
        ("C05", "quick") => (18_000u64, 6_000u64),
        (_, "quick") => (40_000u64, 15_000u64),
        _ => (600_000, 200_000),
    };
    let mut out = vec![];
    let f1 = fl.clone();
    out.push(Batch { name: format!("{}-plain-device", prop), runs: n_plain, f: Box::new(move |i| engine_outcome(crate::rng::run_seed(seed, 1, i), &f1)) });
    let mut f2 = fl.clone();
    f2.benign = true;
    if prop == "C03" {
        // a hard storage error in the middle of an operation: afterwards only "no cross-link, no cycle, no
        // out-of-range link" is demanded (the run ends with that relaxed check)
        let mut f3 = fl.clone();
        f3.hard_fault_pm = 30;
        // ... and a quarter of the calls that change the volume (they are the ones that leave something half done)
        f3.retry_fault_pct = 25;
        f3.retry_fault_max_k = 40;
        let n3 = n_benign;
        out.push(Batch { name: "C03-hard-fault(one hard device error, then the relaxed structural check)".into(), runs: n3, f: Box::new(move |i| engine_outcome(crate::rng::run_seed(seed, 3, i), &f3)) });
    }
    if prop == "C05" {
        // a transient storage error inside a mutating call, the caller tries again: "stats() equals the table" needs no
        // model and stays in force for the rest of the run
        let mut f6 = fl.clone();
        f6.retry_fault_pct = 25;
        f6.retry_fault_max_k = 40;
        f6.oracles = Oracles { free_count: true, fault_resilient: true, ..Default::default() };
        let n6 = n_benign / 2;
        out.push(Batch { name: "C05-transient-storage-error-then-retry(stats() against the table after every later call)".into(), runs: n6, f: Box::new(move |i| engine_outcome(crate::rng::run_seed(seed, 6, i), &f6)) });
    }
    if prop == "C05" {
        // every fault position of remove(), each followed by the same call again: stats() against the table, and the
        // chain comes back whenever the failed call had not changed the table yet
        let n7 = if tier == "quick" { 300u64 } else { 12_000 };
        out.push(Batch {
            name: "C05-single-fault-enumeration-of-remove(every device call fails in turn, then the call is repeated)".into(),
            runs: n7,
            f: Box::new(move |i| crate::c09::scenario_for(crate::rng::run_seed(seed, 7, i), false, 400, "C05", Oracles { free_count: true, fault_resilient: true, ..Default::default() }, Some(|op| matches!(op, Op::Remove { .. })), true)),
        });
    }
    if prop == "C12" {
        // a transient storage error inside a mutating call, the caller tries again: the status-byte rules need no model
        // and stay in force for the rest of the run
        let mut f4 = fl.clone();
        f4.retry_fault_pct = 25;
        f4.oracles.fault_resilient = true;
        let n4 = n_benign;
        out.push(Batch { name: "C12-transient-storage-error-then-retry(status-byte rules only after the first error)".into(), runs: n4, f: Box::new(move |i| engine_outcome(crate::rng::run_seed(seed, 4, i), &f4)) });
    }
    if prop == "C03" {
        // every fault position of calls that change the volume (the positions between two dependent table writes are few
        // and seeded faults rarely land there): after the failed call the table must have no cross-link, cycle,
        // out-of-range link or link from an allocated entry into a free cluster
        let n5 = if tier == "quick" { 300u64 } else { 12_000 };
        out.push(Batch {
            name: "C03-single-fault-enumeration(every device call of mutating operations fails in turn; relaxed structural check after the failed call)".into(),
            runs: n5,
            f: Box::new(move |i| crate::c09::scenario_for(crate::rng::run_seed(seed, 5, i), false, 80, "C03", Oracles { fsck: true, ..Default::default() }, Some(crate::c14::is_mutating), false)),
        });
    }
    if !matches!(prop, "C13") {
        out.push(Batch { name: format!("{}-benign-faults(eintr,short_read,short_write)", prop), runs: n_benign, f: Box::new(move |i| engine_outcome(crate::rng::run_seed(seed, 2, i), &f2)) });
    }
    out
}
