//! SplitMix64: the only source of randomness in the simulator. One run seed decides everything.
#[derive(Clone, Debug)]
pub struct Rng(pub u64);

impl Rng {
    pub fn new(seed: u64) -> Self {
        Rng(seed ^ 0x9E37_79B9_7F4A_7C15)
    }
    #[inline]
    pub fn next_u64(&mut self) -> u64 {
        self.0 = self.0.wrapping_add(0x9E37_79B9_7F4A_7C15);
        let mut z = self.0;
        z = (z ^ (z >> 30)).wrapping_mul(0xBF58_476D_1CE4_E5B9);
        z = (z ^ (z >> 27)).wrapping_mul(0x94D0_49BB_1331_11EB);
        z ^ (z >> 31)
    }
    /// uniform in [0, n)
    #[inline]
    pub fn below(&mut self, n: u64) -> u64 {
        if n == 0 {
            return 0;
        }
        self.next_u64() % n
    }
    #[inline]
    pub fn usize_below(&mut self, n: usize) -> usize {
        self.below(n as u64) as usize
    }
    /// uniform in [lo, hi]
    #[inline]
    pub fn range(&mut self, lo: u64, hi: u64) -> u64 {
        debug_assert!(lo <= hi);
        lo + self.below(hi - lo + 1)
    }
    /// true with probability num/den
    #[inline]
    pub fn chance(&mut self, num: u64, den: u64) -> bool {
        self.below(den) < num
    }
    pub fn pick<'a, T>(&mut self, xs: &'a [T]) -> &'a T {
        &xs[self.usize_below(xs.len())]
    }
    /// independent child stream
    pub fn fork(&mut self, label: u64) -> Rng {
        Rng::new(self.next_u64() ^ label.wrapping_mul(0xD6E8_FEB8_6659_FD93))
    }
    pub fn fill(&mut self, buf: &mut [u8]) {
        for ch in buf.chunks_mut(8) {
            let v = self.next_u64().to_le_bytes();
            ch.copy_from_slice(&v[..ch.len()]);
        }
    }
}

/// derive the seed of run `idx` of a batch from the batch seed
pub fn run_seed(batch_seed: u64, stream: u64, idx: u64) -> u64 {
    let mut r = Rng::new(batch_seed.wrapping_mul(0x2545_F491_4F6C_DD1D) ^ stream.rotate_left(32) ^ idx);
    r.next_u64();
    r.next_u64()
}

/// deterministic 64-bit hash (FNV-1a folded through splitmix) for state/interleaving fingerprints
pub fn hash_bytes(h: u64, data: &[u8]) -> u64 {
    let mut x = h ^ 0xcbf2_9ce4_8422_2325;
    for &b in data {
        x ^= u64::from(b);
        x = x.wrapping_mul(0x0000_0100_0000_01B3);
    }
    let mut z = x;
    z = (z ^ (z >> 30)).wrapping_mul(0xBF58_476D_1CE4_E5B9);
    z = (z ^ (z >> 27)).wrapping_mul(0x94D0_49BB_1331_11EB);
    z ^ (z >> 31)
}
