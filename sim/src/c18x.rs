//! C18(a): the timestamp codec through the public path, over its whole finite domain: set_* -> flush ->
//! re-list (+ the raw words decoded independently), for every date and every time of day.
use crate::disk::{DiskState, LogMode, SimDisk};
use crate::engine::{guarded, viol, Guarded};
use crate::runner::{Batch, RunOutcome};
use crate::types::*;
use fatfs::{Date, DateTime, Time};
use serde_json::json;
use std::cell::RefCell;
use std::rc::Rc;

fn check_cases(cases: &[(u16, u16, u16, u16, u16, u16, u16)], tag: u64) -> RunOutcome {
    let mut o = RunOutcome::empty();
    o.evaluations = 0;
    let v = VolCfg { source: VolSource::Format, fat: 12, bps: 512, spc: 1, fats: 1, root_entries: 16, total_sectors: 200, extra_sectors: 0, ballast_keep: None, ballast_mode: 0, fsinfo_mode: 0, hint: None, status: 0, label: false, tail_taken: 0, dirty_medium: false };
    let store = crate::vol::format_store(&v).expect("harness: c18 volume");
    let st = Rc::new(RefCell::new(DiskState::new(store)));
    st.borrow_mut().log_mode = LogMode::Off;
    let clock = crate::clock::SimClock::new(crate::clock::Stamp { y: 2000, mo: 1, d: 1, h: 0, mi: 0, s: 0, ms: 0 });
    let opts = fatfs::FsOptions::new().time_provider(clock).oem_cp_converter(SimOcc(Oem::Lossy));
    let st2 = st.clone();
    let cases_v = cases.to_vec();
    let r = guarded(move || -> Result<u64, String> {
        let fs = Fs::new(SimDisk::new(st2.clone()), opts).map_err(|e| format!("{:?}", e))?;
        let root = fs.root_dir();
        let mut f = root.create_file("stamp.bin").map_err(|e| format!("{:?}", e))?;
        let mut n = 0u64;
        for (y, mo, d, h, mi, s, ms) in cases_v {
            let dt = DateTime::new(Date::new(y, mo, d), Time::new(h, mi, s, ms));
            f.set_created(dt);
            f.set_modified(dt);
            f.set_accessed(Date::new(y, mo, d));
            use fatfs::Write;
            f.flush().map_err(|e| format!("flush: {:?}", e))?;
            let e = root.iter().next().ok_or("entry vanished")?.map_err(|e| format!("{:?}", e))?;
            let (c, m, a) = (e.created(), e.modified(), e.accessed());
            let want_c = (y, mo, d, h, mi, s, ms / 10 * 10);
            let got_c = (c.date.year, c.date.month, c.date.day, c.time.hour, c.time.min, c.time.sec, c.time.millis);
            let want_m = (y, mo, d, h, mi, s & !1, 0);
            let got_m = (m.date.year, m.date.month, m.date.day, m.time.hour, m.time.min, m.time.sec, m.time.millis);
            if got_c != want_c || got_m != want_m || (a.year, a.month, a.day) != (y, mo, d) {
                return Err(format!("set {:?}: created {:?} (want {:?}), modified {:?} (want {:?}), accessed {:?}", (y, mo, d, h, mi, s, ms), got_c, want_c, got_m, want_m, (a.year, a.month, a.day)));
            }
            // raw words, decoded independently (root directory starts right after the single FAT)
            let img = st2.borrow();
            let g = crate::refdec::geo(&img.store).map_err(|e| e)?;
            let slot = g.root_off + 32 * 2; // "stamp.bin" needs one LFN slot + the short entry
            let mut off = None;
            for k in 0..4u64 {
                if img.store.u8_at(g.root_off + 32 * k + 11) & 0x3F != 0x0F && img.store.u8_at(g.root_off + 32 * k) != 0 {
                    off = Some(g.root_off + 32 * k);
                    break;
                }
            }
            let off = off.unwrap_or(slot);
            let (tenth, ctime, cdate, adate, mtime, mdate) = (img.store.u8_at(off + 13), img.store.u16_at(off + 14), img.store.u16_at(off + 16), img.store.u16_at(off + 18), img.store.u16_at(off + 22), img.store.u16_at(off + 24));
            let wd = ((y - 1980) << 9) | (mo << 5) | d;
            let wt = (h << 11) | (mi << 5) | (s / 2);
            if cdate != wd || adate != wd || mdate != wd || ctime != wt || mtime != wt || u16::from(tenth) != (s % 2) * 100 + ms / 10 {
                return Err(format!("set {:?}: raw words cdate {:#x} ctime {:#x} tenth {} adate {:#x} mdate {:#x} mtime {:#x}", (y, mo, d, h, mi, s, ms), cdate, ctime, tenth, adate, mdate, mtime));
            }
            n += 1;
        }
        Ok(n)
    });
    match r {
        Guarded::Done(Ok(n)) => {
            o.evaluations = n;
            o.distinct.push(crate::rng::hash_bytes(tag, b"c18-chunk"));
            o.counters.insert("codec_cases".into(), n);
        }
        Guarded::Done(Err(e)) => {
            let v = viol("C18", "timestamp-round-trip", e, 0);
            o.violation = Some((v.clone(), Replay { property: "C18".into(), kind: "c18-codec".into(), seed: tag, cfg: crate::c06::dummy_cfg(), steps: vec![], violation: Some(v) }));
        }
        Guarded::Panic(m) => {
            let v = viol("C18", "panic", m, 0);
            o.violation = Some((v.clone(), Replay { property: "C18".into(), kind: "c18-codec".into(), seed: tag, cfg: crate::c06::dummy_cfg(), steps: vec![], violation: Some(v) }));
        }
        Guarded::Hang => {
            let v = viol("C18", "hang", String::new(), 0);
            o.violation = Some((v.clone(), Replay { property: "C18".into(), kind: "c18-codec".into(), seed: tag, cfg: crate::c06::dummy_cfg(), steps: vec![], violation: Some(v) }));
        }
    }
    o
}

/// item < 128: all (month, day) of year 1980+item at four times of day; item >= 128: one (hour, minute) block of
/// every (second, 10-ms step) at three dates
pub fn codec(item: u64) -> RunOutcome {
    let mut cases = vec![];
    if item < 128 {
        let y = 1980 + item as u16;
        for mo in 1..=12u16 {
            for d in 1..=31u16 {
                for (h, mi, s, ms) in [(0u16, 0u16, 0u16, 0u16), (23, 59, 59, 990), (12, 30, 31, 500), (7, 7, 8, 10)] {
                    cases.push((y, mo, d, h, mi, s, ms));
                }
            }
        }
    } else {
        let hm = item - 128;
        let (h, mi) = ((hm / 60) as u16, (hm % 60) as u16);
        let dates = [(1980u16, 1u16, 1u16), (2107, 12, 31), (2024, 2, 29)];
        let (y, mo, d) = dates[(hm % 3) as usize];
        for s in 0..60u16 {
            for t in 0..100u16 {
                cases.push((y, mo, d, h, mi, s, t * 10));
            }
        }
    }
    let mut o = check_cases(&cases, item);
    o.sample = Some(json!({"item": item, "cases": cases.len(), "first": format!("{:?}", cases[0]), "last": format!("{:?}", cases[cases.len() - 1])}));
    o
}

pub fn replay(kind: &str, seed: u64) -> Option<RunOutcome> {
    if kind == "c18-codec" {
        Some(codec(seed))
    } else {
        None
    }
}

pub fn batch() -> Batch<'static> {
    Batch { name: "codec: every (year, month, day) 1980-2107 x 1-12 x 1-31 and every (hour, minute, second, 10 ms step) through set_* / flush / re-list + raw words".into(), runs: 128 + 24 * 60, f: Box::new(codec) }
}
