//! C15: names. A name-centred script on top of the engine: every candidate is applied through
//! create_file / create_dir / rename into a populated directory, listed, and looked up by exact name, case
//! variants, alias and near misses; the tree model (documented character set, Unicode-aware folding) and the
//! raw-image oracles decide.
use crate::engine::{HandleView, StepSource, World};
use crate::exec;
use crate::gen::{long_name, INVALID_NAMES, VALID_NAMES};
use crate::model::{self, ROOT};
use crate::props;
use crate::rng::Rng;
use crate::runner::{Batch, RunOutcome};
use crate::types::*;
use serde_json::json;
use std::collections::VecDeque;

pub struct NameScript {
    pub rng: Rng,
    pub cands: Vec<String>,
    pub next_cand: usize,
    pub queue: VecDeque<Op>,
    pub phase: u8,
    pub cur: String,
    pub populate: Vec<String>,
    pub accepted: u64,
    pub rejected: u64,
    pub keep_some: bool,
}

fn flip_case(r: &mut Rng, s: &str) -> String {
    let mut out = String::new();
    for c in s.chars() {
        match r.below(3) {
            0 => out.extend(c.to_uppercase()),
            1 => out.extend(c.to_lowercase()),
            _ => out.push(c),
        }
    }
    out
}

fn expanding_variant(s: &str) -> Option<String> {
    for (a, b) in [("ß", "SS"), ("ß", "ss"), ("ŉ", "ʼN"), ("ǰ", "J\u{30c}"), ("ﬁ", "FI"), ("ﬀ", "ff"), ("ΐ", "Ϊ\u{301}"), ("SS", "ß"), ("ss", "ß")] {
        if s.contains(a) {
            return Some(s.replacen(a, b, 1));
        }
    }
    None
}

fn near_miss(r: &mut Rng, s: &str) -> String {
    let chars: Vec<char> = s.chars().collect();
    if chars.is_empty() {
        return "q".into();
    }
    let i = r.usize_below(chars.len());
    let mut v = chars.clone();
    match r.below(4) {
        0 => {
            v.remove(i);
        }
        1 => v.insert(i, 'q'),
        2 => v[i] = if v[i] == 'z' { 'y' } else { 'z' },
        _ => v.push('_'),
    }
    let out: String = v.into_iter().collect();
    if out.is_empty() || out.contains('/') {
        "q".into()
    } else {
        out
    }
}

impl StepSource for NameScript {
    fn next(&mut self, w: &World, _h: &HandleView) -> Option<Step> {
        loop {
            if let Some(op) = self.queue.pop_front() {
                return Some(Step { c: 0, op, hard_at: None, sticky: false });
            }
            if let Some(p) = self.populate.pop() {
                let op = if self.rng.chance(1, 4) { Op::CreateDir { base: 0, path: p, keep: None } } else { Op::CreateFile { base: 0, path: p, keep: None } };
                return Some(Step { c: 0, op, hard_at: None, sticky: false });
            }
            match self.phase {
                0 => {
                    if self.next_cand >= self.cands.len() {
                        return None;
                    }
                    self.cur = self.cands[self.next_cand].clone();
                    self.next_cand += 1;
                    let c = self.cur.clone();
                    if c.contains('/') || c == "." || c == ".." {
                        continue;
                    }
                    match self.rng.below(4) {
                        0 => self.queue.push_back(Op::CreateDir { base: 0, path: c, keep: None }),
                        1 => {
                            self.queue.push_back(Op::CreateFile { base: 0, path: "rename-src.tmp".into(), keep: None });
                            self.queue.push_back(Op::Rename { sbase: 0, spath: "rename-src.tmp".into(), dbase: 0, dpath: c });
                        }
                        _ => self.queue.push_back(Op::CreateFile { base: 0, path: c, keep: None }),
                    }
                    self.queue.push_back(Op::List { base: 0 });
                    self.phase = 1;
                }
                _ => {
                    self.phase = 0;
                    let c = self.cur.clone();
                    let ok = model::name_errors(&c).is_empty();
                    if ok {
                        self.accepted += 1;
                    } else {
                        self.rejected += 1;
                    }
                    // lookups: exact, case variants, alias, near misses -- the model decides what each must return
                    let node = w.model.child(ROOT, &c);
                    let mut probes: Vec<String> = vec![c.clone(), c.to_uppercase(), c.to_lowercase(), flip_case(&mut self.rng, &c), near_miss(&mut self.rng, &c), near_miss(&mut self.rng, &c)];
                    if let Some(v) = expanding_variant(&c) {
                        probes.push(v);
                    }
                    if let Some(n) = node {
                        if let Some(a) = &w.model.nodes[n].alias {
                            probes.push(a.clone());
                            probes.push(a.to_lowercase());
                            probes.push(near_miss(&mut self.rng, a));
                        }
                    }
                    for p in probes {
                        if p.contains('/') || p.is_empty() {
                            continue;
                        }
                        if self.rng.chance(1, 2) {
                            self.queue.push_back(Op::OpenFile { base: 0, path: p, slot: 0 });
                            self.queue.push_back(Op::CloseFile { f: 0 });
                        } else {
                            self.queue.push_back(Op::OpenDir { base: 0, path: p, slot: 1 });
                            self.queue.push_back(Op::CloseDir { d: 1 });
                        }
                    }
                    // keep the directory bounded: usually remove the candidate again
                    if node.is_some() && !(self.keep_some && self.rng.chance(1, 5)) {
                        self.queue.push_back(Op::Remove { base: 0, path: c.clone() });
                    }
                    self.queue.push_back(Op::Remove { base: 0, path: "rename-src.tmp".into() });
                }
            }
        }
    }
}

fn random_name(r: &mut Rng) -> String {
    let len = match r.below(10) {
        0 => 0,
        1 => r.range(250, 300) as usize,
        2 => r.range(80, 130) as usize,
        _ => r.range(1, 24) as usize,
    };
    let mut s = String::new();
    for _ in 0..len {
        let c = match r.below(12) {
            0 => ' ',
            1 => '.',
            2 => char::from_u32(r.range(0x20, 0x7E) as u32).unwrap(),
            3 => char::from_u32(r.range(0x80, 0x24F) as u32).unwrap(),
            4 => loop {
                let x = r.range(0x250, 0xFFFF) as u32;
                if let Some(c) = char::from_u32(x) {
                    break c;
                }
            },
            5 => char::from_u32(r.range(0x1_0000, 0x1_FFFF) as u32).unwrap_or('x'),
            6 => *r.pick(&['ß', 'ŉ', 'ǰ', 'ﬁ', 'İ', 'ı', 'Σ', 'ς', 'σ', 'ΐ', 'é', 'É']),
            7 => char::from_u32(r.range(0, 0x1F) as u32).unwrap(),
            _ => (b'a' + r.below(26) as u8) as char,
        };
        if c != '/' {
            s.push(c);
        }
    }
    s
}

fn small_cfg(r: &mut Rng) -> RunCfg {
    let mut fl = props::base_flavor("C15");
    fl.oracles = Oracles { outcome: true, raw_tree: true, fail_atomic: true, ..Default::default() };
    fl.fat_w = [6, 3, 1];
    fl.ballast_pct = 0;
    fl.small_root_pct = 0;
    fl.max_cluster_bytes = 4096;
    let mut cfg = props::draw_cfg(r, fl_ref(&fl));
    cfg.access_date = false;
    cfg
}

fn fl_ref(f: &props::Flavor) -> &props::Flavor {
    f
}

fn run_script(seed: u64, cands: Vec<String>, kind: &str, populate_n: usize) -> RunOutcome {
    let mut r = Rng::new(seed);
    let cfg = small_cfg(&mut r);
    let mut populate = vec![];
    for _ in 0..populate_n {
        let n = match r.below(4) {
            0 => random_name(&mut r),
            1 => long_name(r.range(20, 120) as usize, 'P'),
            _ => (*r.pick(VALID_NAMES)).to_string(),
        };
        if model::name_errors(&n).is_empty() && n != "." && n != ".." {
            populate.push(n);
        }
    }
    let ncand = cands.len();
    let mut src = NameScript { rng: Rng::new(seed ^ 0xC15), cands, next_cand: 0, queue: VecDeque::new(), phase: 0, cur: String::new(), populate, accepted: 0, rejected: 0, keep_some: true };
    let res = exec::run(cfg.clone(), "C15", &mut src, ncand * 40 + 200);
    let mut o = RunOutcome::empty();
    o.evaluations = ncand as u64;
    o.stats = res.stats;
    o.counters.insert("names_accepted".into(), src.accepted);
    o.counters.insert("names_rejected".into(), src.rejected);
    for c in src.cands.iter().take(src.next_cand) {
        o.distinct.push(crate::rng::hash_bytes(7, c.as_bytes()));
    }
    o.sample = Some(json!({"seed": seed, "config": props::cfg_summary(&cfg), "candidates": src.cands.iter().take(6).map(|c| c.chars().take(40).collect::<String>()).collect::<Vec<_>>()}));
    if let Some(mut v) = res.violation {
        if v.property == "C01" {
            v.property = "C15".into();
        }
        let rep = Replay { property: "C15".into(), kind: kind.into(), seed, cfg, steps: res.trace, violation: Some(v.clone()) };
        o.violation = Some((v, rep));
    }
    o
}

/// seeded strings over the BMP + astral samples, all lengths
pub fn random_names(seed: u64) -> RunOutcome {
    let mut r = Rng::new(seed ^ 0x15);
    let mut cands = vec![];
    for _ in 0..40 {
        let c = match r.below(10) {
            0 => (*r.pick(INVALID_NAMES)).to_string(),
            1 => (*r.pick(VALID_NAMES)).to_string(),
            2 => {
                // only dots / spaces, leading / trailing
                let mut s = String::new();
                for _ in 0..r.range(1, 6) {
                    s.push(*r.pick(&['.', ' ']));
                }
                if r.chance(1, 2) {
                    s.push_str("mid");
                    for _ in 0..r.range(0, 3) {
                        s.push(*r.pick(&['.', ' ']));
                    }
                }
                s
            }
            3 => {
                // byte-length boundary with multi-byte characters: 255 bytes can be far fewer units
                let ch = *r.pick(&['é', '日', 'x']);
                let target = r.range(250, 260) as usize;
                let mut s = String::new();
                while s.len() + ch.len_utf8() <= target {
                    s.push(ch);
                }
                while s.len() < target {
                    s.push('y');
                }
                s
            }
            _ => random_name(&mut r),
        };
        cands.push(c);
    }
    let pop = r.range(0, 40) as usize;
    run_script(seed, cands, "engine", pop)
}

/// every length 0..=300 (ASCII, 2-byte and 3-byte characters)
pub fn lengths(idx: u64) -> RunOutcome {
    let ch = ['a', 'é', '日'][(idx % 3) as usize];
    let lo = (idx / 3) * 20;
    let mut cands = vec![];
    for l in lo..(lo + 20).min(301) {
        let mut s = String::new();
        for _ in 0..l {
            s.push(ch);
        }
        cands.push(s);
    }
    run_script(0xA11CE ^ idx, cands, "engine", 3)
}

/// systematic pass: code points [lo, hi) each at first / middle / last position
pub fn codepoints(lo: u32, hi: u32, astral: bool) -> RunOutcome {
    let mut cands = vec![];
    let mut r = Rng::new(u64::from(lo) ^ 0xC0DE);
    for cp in lo..hi {
        let cpx = if astral { 0x1_0000 + r.below(0x10_0000) as u32 } else { cp };
        let Some(c) = char::from_u32(cpx) else { continue };
        if c == '/' {
            continue;
        }
        cands.push(format!("{}ab", c));
        cands.push(format!("a{}b", c));
        cands.push(format!("ab{}", c));
        if cp < 0x80 {
            cands.push(c.to_string());
        }
    }
    let mut o = run_script(u64::from(lo) ^ 0x5EED, cands, "engine", 2);
    o.counters.insert(if astral { "astral_code_points".into() } else { "bmp_code_points".into() }, u64::from(hi - lo));
    o
}

pub fn batches(tier: &str, seed: u64) -> (Vec<Batch<'static>>, bool) {
    let quick = tier == "quick";
    let mut v: Vec<Batch<'static>> = vec![];
    let n_rand = if quick { 6000u64 } else { 400_000 };
    v.push(Batch { name: "seeded candidate names (full BMP, astral, control, lengths 0-300) into populated directories".into(), runs: n_rand, f: Box::new(move |i| random_names(crate::rng::run_seed(seed, 51, i))) });
    v.push(Batch { name: "every length 0..=300 with 1-, 2- and 3-byte characters".into(), runs: 48, f: Box::new(lengths) });
    // every BMP code point at first / middle / last position (surrogates are not chars)
    v.push(Batch { name: "every BMP code point at first / middle / last position (+ every ASCII character alone)".into(), runs: 2048, f: Box::new(|i| codepoints((i * 32) as u32, (i * 32 + 32) as u32, false)) });
    let n_astral = if quick { 64u64 } else { 2048 };
    v.push(Batch { name: "sampled astral code points at first / middle / last position".into(), runs: n_astral, f: Box::new(|i| codepoints((i * 32) as u32, (i * 32 + 32) as u32, true)) });
    (v, true)
}
