//! C16: generated 8.3 aliases are legal, unique and tied to their long name. Directory populations
//! engineered to collide on the 6-character form, on the 2-character+hash form, with removals in between.
use crate::engine::{HandleView, StepSource, World};
use crate::exec;
use crate::model::{self, ROOT};
use crate::props;
use crate::rng::Rng;
use crate::runner::{Batch, RunOutcome};
use crate::types::*;
use serde_json::json;
use std::collections::BTreeMap;

/// the library's 16-bit name checksum (BSD checksum over the chars), restated to engineer hash-form collisions
fn name_hash(name: &str) -> u16 {
    let mut c: u16 = 0;
    for ch in name.chars() {
        c = (c >> 1).wrapping_add(c << 15).wrapping_add(ch as u16);
    }
    c
}

/// names sharing the first two characters, the extension and the 16-bit hash
fn hash_family(r: &mut Rng, want: usize) -> Vec<String> {
    let stem: String = (0..6).map(|_| (b'a' + r.below(26) as u8) as char).collect();
    let alphabet: Vec<char> = "abcdefghijklmnopqrstuvwxyz0123456789".chars().collect();
    let mut buckets: BTreeMap<u16, Vec<String>> = BTreeMap::new();
    for a in &alphabet {
        for b in &alphabet {
            for c in &alphabet {
                let n = format!("hh{} {}{}{} tail.dat", stem, a, b, c);
                buckets.entry(name_hash(&n)).or_default().push(n);
            }
        }
    }
    let mut best: Vec<String> = buckets.into_values().max_by_key(|v| v.len()).unwrap_or_default();
    best.truncate(want);
    best
}

/// names sharing the first six characters, the extension and a 16-bit hash at the very top of the range (0xFFFF): once
/// the numeric tails ~1..~9 of that hash are taken the generator has to go on to hash + 1, i.e. wrap around to 0
fn top_hash_family(r: &mut Rng, want: usize) -> Vec<String> {
    let stem: String = (0..6).map(|_| (b'a' + r.below(26) as u8) as char).collect();
    let alphabet: Vec<char> = "abcdefghijklmnopqrstuvwxyz0123456789".chars().collect();
    let step = |mut c: u16, s: &str| -> u16 {
        for ch in s.chars() {
            c = (c >> 1).wrapping_add(c << 15).wrapping_add(ch as u16);
        }
        c
    };
    let h_pre = step(0, &format!("{} top ", stem));
    let mut out = vec![];
    'all: for a in &alphabet {
        for b in &alphabet {
            let h_ab = step(h_pre, &format!("{}{}", a, b));
            for c in &alphabet {
                for d in &alphabet {
                    if step(h_ab, &format!("{}{}.dat", c, d)) == 0xFFFF {
                        out.push(format!("{} top {}{}{}{}.dat", stem, a, b, c, d));
                        if out.len() >= want {
                            break 'all;
                        }
                    }
                }
            }
        }
    }
    out
}

/// names whose characters 3..6 are the hex digits of their own 16-bit hash: for them the 6-character alias form and
/// the 2-character+hash form are the same string, so one existing alias collides with both forms at once
fn self_hash_family(r: &mut Rng, want: usize) -> Vec<String> {
    let p2: String = (0..2).map(|_| (b'A' + r.below(26) as u8) as char).collect();
    let mut out = vec![];
    let mut tries = 0u32;
    let h0 = r.below(65536) as u16;
    let ext = *r.pick(&["txt", "dat"]);
    let mut k = 0u32;
    let step = |mut c: u16, s: &str| -> u16 {
        for ch in s.chars() {
            c = (c >> 1).wrapping_add(c << 15).wrapping_add(ch as u16);
        }
        c
    };
    let pre = step(0, &format!("{}{:04X}-self-", p2, h0));
    let tail = format!(".{}", ext);
    let mut digits = String::new();
    while out.len() < want && tries < 1_500_000 {
        tries += 1;
        k += 1;
        digits.clear();
        use std::fmt::Write;
        let _ = write!(digits, "{}", k);
        if step(step(pre, &digits), &tail) == h0 {
            out.push(format!("{}{:04X}-self-{}.{}", p2, h0, k, ext));
        }
    }
    // fillers sharing the 6-character prefix (they take ~1..~4 of the numeric-tail form)
    for i in 0..5 {
        out.push(format!("{}{:04X}-filler-{}.{}", p2, h0, i, ext));
    }
    out
}

pub struct PopScript {
    pub rng: Rng,
    pub pool: Vec<String>,
    pub left: usize,
    /// directories being populated: (handle slot, name under the root; None = the root itself)
    pub dirs: Vec<(u8, Option<&'static str>)>,
    pub made: usize,
}

impl StepSource for PopScript {
    fn next(&mut self, w: &World, _h: &HandleView) -> Option<Step> {
        if self.left == 0 {
            return None;
        }
        self.left -= 1;
        let mk = |op| Some(Step { c: 0, op, hard_at: None, sticky: false });
        while self.made < self.dirs.len() {
            let (slot, name) = self.dirs[self.made];
            self.made += 1;
            if let Some(n) = name {
                return mk(Op::CreateDir { base: 0, path: n.into(), keep: Some(slot) });
            }
        }
        let node_of = |d: &(u8, Option<&'static str>)| match d.1 {
            Some(n) => w.model.child(ROOT, n).unwrap_or(ROOT),
            None => ROOT,
        };
        let skip = |n: &String| n == "pop" || n == "pop2";
        let di = self.rng.usize_below(self.dirs.len());
        let base = self.dirs[di].0;
        let dirn = node_of(&self.dirs[di]);
        let existing: Vec<String> = w.model.nodes[dirn].children.iter().map(|c| w.model.nodes[*c].name.clone()).filter(|n| !skip(n)).collect();
        let r = self.rng.below(100);
        if r < 16 && !existing.is_empty() {
            return mk(Op::Remove { base, path: self.rng.pick(&existing).clone() });
        }
        if r < 24 && !existing.is_empty() {
            let to = self.pool[self.rng.usize_below(self.pool.len())].clone();
            return mk(Op::Rename { sbase: base, spath: self.rng.pick(&existing).clone(), dbase: base, dpath: to });
        }
        if r < 36 && !existing.is_empty() && self.dirs.len() > 1 {
            // move into the other directory, mostly under the same name: the alias it had is taken there, or not
            let dj = (di + 1) % self.dirs.len();
            let from = self.rng.pick(&existing).clone();
            let to = if self.rng.chance(3, 4) { from.clone() } else { self.pool[self.rng.usize_below(self.pool.len())].clone() };
            return mk(Op::Rename { sbase: base, spath: from, dbase: self.dirs[dj].0, dpath: to });
        }
        if r < 38 {
            return mk(Op::Checkpoint);
        }
        let name = self.pool[self.rng.usize_below(self.pool.len())].clone();
        if self.rng.chance(1, 6) {
            mk(Op::CreateDir { base, path: name, keep: None })
        } else {
            mk(Op::CreateFile { base, path: name, keep: None })
        }
    }
}

pub fn run(seed: u64, size: usize) -> RunOutcome {
    let mut r = Rng::new(seed);
    let mut fl = props::base_flavor("C16");
    fl.oracles = Oracles { alias_rules: true, fsck: true, outcome: true, ..Default::default() };
    fl.fat_w = [3, 4, 2];
    fl.ballast_pct = 0;
    fl.small_root_pct = 0;
    fl.max_cluster_bytes = 8192;
    let mut cfg = props::draw_cfg(&mut r, &fl);
    cfg.access_date = false;
    // colliding pool
    let mut pool: Vec<String> = vec![];
    let ext = *r.pick(&["txt", "dat", "", "html", "c"]);
    let pre: String = (0..6).map(|_| (b'a' + r.below(26) as u8) as char).collect();
    for i in 0..size {
        // same first six characters and extension: TEXTFI~n.TXT form, then the hash form
        pool.push(if ext.is_empty() { format!("{} number {:04}", pre, i) } else { format!("{} number {:04}.{}", pre, i, ext) });
    }
    pool.extend(hash_family(&mut r, 14 + size / 4));
    if r.chance(1, 3) {
        let fam = self_hash_family(&mut r, 5);
        // these go first so that they meet in a small directory
        let mut p2 = fam;
        p2.extend(pool);
        pool = p2;
    }
    if r.chance(1, 3) {
        // names around one short base: the plain form, forms whose alias is the base plus a numeric tail, and forms
        // that are different names with the same 8.3 image (trailing dots); they go first so that they meet early
        let b: String = match r.below(3) {
            0 => "x".into(),
            1 => pre[..3].to_string(),
            _ => "data".into(),
        };
        let mut fam = vec![b.clone(), format!(".{}", b), format!("{}.", b), format!("{}~1", b), format!("{}~2", b), format!("{}..", b), format!(".{}.", b), format!("{} ", b), format!("{}.{}", b, "e"), format!("{}.e.", b)];
        fam.extend(pool);
        pool = fam;
    }
    let top = r.chance(1, 8);
    if top {
        // a pool that consists of little else, so that the whole family ends up in one directory
        let mut fam = top_hash_family(&mut r, 18);
        fam.extend(pool.into_iter().take(4));
        pool = fam;
    }
    for i in 0..size / 4 {
        if top {
            break;
        }
        // short basenames (prefix shorter than 6 / 2), lossy characters, dots and spaces, non-ASCII
        pool.push(match i % 8 {
            0 => format!("a+{}.x", i),
            1 => format!(".{}", i),
            2 => format!("{} .. {}.. ", i, i),
            3 => format!("é{}", i),
            4 => format!("日本{}.日本語", i),
            5 => format!("x{}", "y".repeat(i % 40)),
            6 => format!("{}~1.txt", &pre[..4]),
            _ => format!("{}~{}", pre.to_uppercase(), i % 10),
        });
    }
    for _ in 0..size / 6 {
        if top {
            break;
        }
        pool.push((*r.pick(crate::gen::VALID_NAMES)).to_string());
    }
    let steps = size * 3 + 20;
    let in_subdir = cfg.vol.fat == 32 || r.chance(2, 3);
    let mut dirs: Vec<(u8, Option<&'static str>)> = vec![if in_subdir { (1, Some("pop")) } else { (0, None) }];
    if !top && r.chance(1, 2) {
        dirs.push((2, Some("pop2")));
    }
    let mut src = PopScript { rng: Rng::new(seed ^ 0xC16), pool, left: steps, dirs, made: 0 };
    let res = exec::run(cfg.clone(), "C16", &mut src, steps + 10);
    let mut o = RunOutcome::empty();
    o.evaluations = res.stats.ops_ok.max(1);
    o.stats = res.stats;
    o.sample = Some(json!({"seed": seed, "config": props::cfg_summary(&cfg), "pool_size": src.pool.len(), "pool_head": src.pool.iter().take(4).collect::<Vec<_>>(), "steps": steps}));
    if let Some(mut v) = res.violation {
        if matches!(v.property.as_str(), "C01" | "C03" | "C05") && v.class != "panic" && v.class != "hang" {
            v.property = "C16".into();
        }
        if v.class == "hang" || v.class == "panic" {
            v.property = "C16".into();
        }
        let rep = Replay { property: "C16".into(), kind: "engine".into(), seed, cfg, steps: res.trace, violation: Some(v.clone()) };
        o.violation = Some((v, rep));
    }
    o
}

pub fn batches(tier: &str, seed: u64) -> Vec<Batch<'static>> {
    let quick = tier == "quick";
    let mut v: Vec<Batch<'static>> = vec![];
    let (n_small, n_big, big) = if quick { (8000u64, 120u64, 200usize) } else { (100_000, 800, 600) };
    v.push(Batch { name: "populations of 20-60 colliding names with removals and renames".into(), runs: n_small, f: Box::new(move |i| { let s = crate::rng::run_seed(seed, 61, i); run(s, 20 + (s % 41) as usize) }) });
    v.push(Batch { name: format!("populations of {} colliding names", big), runs: n_big, f: Box::new(move |i| run(crate::rng::run_seed(seed, 62, i), big)) });
    v
}
