//! The simulation engine: executes Steps against the real library on a SimDisk and against the model,
//! evaluating the enabled oracles after every call.
use crate::clock::{SimClock, Stamp};
use crate::disk::{Benign, DiskState, FaultPlan, LogMode, SimDisk, Store, WriteRec};
use crate::model::{self, Model, NodeId, E, ROOT};
use crate::refdec::{self, Parsed, Region};
use crate::types::*;
use fatfs::{Read, Seek, SeekFrom, Write};
use std::cell::RefCell;
use std::collections::BTreeSet;
use std::panic::{catch_unwind, AssertUnwindSafe};
use std::rc::Rc;

pub fn map_err(e: &FErr) -> E {
    use crate::disk::ErrKind;
    match e {
        fatfs::Error::Io(io) => match io.kind {
            ErrKind::Hard => E::Io(io.id),
            ErrKind::UnexpectedEof => E::UnexpectedEof,
            ErrKind::WriteZero => E::WriteZero,
            ErrKind::Interrupted => E::IoOther("interrupted".into()),
            ErrKind::BadSeek => E::IoOther("bad-seek".into()),
        },
        fatfs::Error::UnexpectedEof => E::UnexpectedEof,
        fatfs::Error::WriteZero => E::WriteZero,
        fatfs::Error::InvalidInput => E::InvalidInput,
        fatfs::Error::NotFound => E::NotFound,
        fatfs::Error::AlreadyExists => E::AlreadyExists,
        fatfs::Error::DirectoryIsNotEmpty => E::DirNotEmpty,
        fatfs::Error::CorruptedFileSystem => E::Corrupted,
        fatfs::Error::NotEnoughSpace => E::NoSpace,
        fatfs::Error::InvalidFileNameLength => E::NameLen,
        fatfs::Error::UnsupportedFileNameCharacter => E::NameChar,
        _ => E::IoOther("unknown".into()),
    }
}

pub struct FileH<'a> {
    pub f: FFile<'a>,
    pub node: NodeId,
    pub pos: u64,
    /// model state differs from what has been flushed
    pub dirty: bool,
}

pub struct DirH<'a> {
    pub d: FDir<'a>,
    pub node: NodeId,
    /// the handle was opened through the ".." entry of this directory (it then references that slot on disk)
    pub via: Option<NodeId>,
}

pub struct Session<'a> {
    pub fs: &'a Fs,
    pub dirs: Vec<Option<DirH<'a>>>,
    pub files: Vec<Option<FileH<'a>>>,
}

/// what the generator may look at
pub struct HandleView {
    pub dirs: Vec<Option<NodeId>>,
    pub files: Vec<Option<(NodeId, u64)>>,
}

#[derive(Default, Clone, Debug)]
pub struct RunStats {
    pub steps: u64,
    pub ops_ok: u64,
    pub ops_err: u64,
    pub device_calls: u64,
    pub sessions: u64,
    pub checkpoints: u64,
    pub nospace_seen: u64,
    pub root_full_seen: u64,
    pub dir_grew: u64,
    pub lfn_straddle: u64,
    pub write_cross_cluster: u64,
    pub alloc_wrapped: u64,
    pub stale_dir_handle_used: u64,
    pub multi_handle_steps: u64,
    pub fail_atomic_checked: u64,
    pub audited_writes: u64,
    pub clock_back: u64,
    pub model_diverged: u64,
    pub unmount_crash_images: u64,
    pub unmount_faults: u64,
    pub reclaim_after_retry_checked: u64,
    pub alias_hash_form: u64,
    pub alias_tail_form: u64,
    pub hard_faults: u64,
    pub state_hashes: Vec<u64>,
    pub interleave_hash: u64,
    pub fired: crate::disk::Fired,
    pub clock_span_s: i64,
}

pub struct World {
    pub cfg: RunCfg,
    pub disk: Rc<RefCell<DiskState>>,
    pub clock: SimClock,
    pub model: Model,
    pub stats: RunStats,
    pub step_no: usize,
    /// parse of the image after the last step (valid as "before" for the next one)
    pub last_parsed: Option<Rc<Parsed>>,
    // per-session state
    pub mount_status: u8,
    pub structural: bool,
    pub mount_fat_head: Vec<u8>,
    pub mount_fat_pad: Vec<u8>,
    pub count_known: bool,
    pub mounted_dirty: bool,
    pub session_writes: u64,
    pub fsinfo_writes_only: bool,
    pub stats_called_unusable: bool,
    /// after a hard fault the oracles are relaxed for the rest of the run
    pub faulted: bool,
    pub faulted_in_rename: bool,
    /// this step met an injected hard error
    pub step_injected: bool,
    /// C05: chain of an object whose removal failed without changing the table; the repeated call must give it back
    pub pending_reclaim: Option<(Vec<u32>, String)>,
    /// library and model diverged (outcome oracle off): nothing more can be judged in this run
    pub stop: bool,
    pub unmount_failed: bool,
    pub geo: refdec::Geo,
    /// property the current check is about (default attribution of panics, hangs, mount failures)
    pub prop: String,
    /// running hash of everything observed through the API (C19 compares it across builds)
    pub obs: u64,
    /// device calls issued by each executed step (C09 enumerates fault positions 1..=n)
    pub step_calls: Vec<u64>,
    /// C14 recording
    pub crash: CrashLog,
}

#[derive(Clone, Debug)]
pub struct FlushPoint {
    pub widx: usize,
    pub epoch: u32,
    pub node: NodeId,
    pub path: String,
    pub content: Vec<u8>,
    pub step: usize,
}

#[derive(Default)]
pub struct CrashLog {
    pub start: Option<Store>,
    pub writes: Vec<WriteRec>,
    pub flush_points: Vec<FlushPoint>,
    /// (write index, node): from this point on the node is no longer tracked
    pub untrack: Vec<(usize, NodeId)>,
    pub final_epoch: u32,
}

pub enum SessionEnd {
    Remount(u8),
    Finished,
}

pub trait StepSource {
    fn next(&mut self, w: &World, h: &HandleView) -> Option<Step>;
}

pub struct ReplaySource {
    pub steps: Vec<Step>,
    pub i: usize,
}

impl StepSource for ReplaySource {
    fn next(&mut self, _w: &World, _h: &HandleView) -> Option<Step> {
        let s = self.steps.get(self.i).cloned();
        self.i += 1;
        s
    }
}

pub fn viol(prop: &str, class: &str, detail: String, step: usize) -> Violation {
    Violation { property: prop.to_string(), class: class.to_string(), detail, step }
}

pub fn fs_options(cfg: &RunCfg, clock: &SimClock) -> fatfs::FsOptions<SimClock, SimOcc> {
    // The options builder is part of the API: the order of the builder calls and whether defaults are spelled out is a
    // per-run knob (a builder that forgets to carry a field over would otherwise stay invisible).
    let (c, o, a, st) = (clock.clone(), SimOcc(cfg.oem), cfg.access_date, cfg.strict);
    let spell_defaults = (cfg.dev_seed >> 8) & 1 == 1;
    let base = fatfs::FsOptions::new();
    let upd = |x: fatfs::FsOptions<fatfs::DefaultTimeProvider, fatfs::LossyOemCpConverter>| if a || spell_defaults { x.update_accessed_date(a) } else { x };
    let stx = |x: fatfs::FsOptions<fatfs::DefaultTimeProvider, fatfs::LossyOemCpConverter>| if !st || spell_defaults { x.strict(st) } else { x };
    match cfg.dev_seed % 6 {
        0 => {
            let x = base.time_provider(c).oem_cp_converter(o);
            let x = if a || spell_defaults { x.update_accessed_date(a) } else { x };
            if !st || spell_defaults {
                x.strict(st)
            } else {
                x
            }
        }
        1 => stx(upd(base)).time_provider(c).oem_cp_converter(o),
        2 => {
            let x = base.oem_cp_converter(o);
            let x = if a || spell_defaults { x.update_accessed_date(a) } else { x };
            let x = x.time_provider(c);
            if !st || spell_defaults {
                x.strict(st)
            } else {
                x
            }
        }
        3 => {
            let x = stx(base).oem_cp_converter(o).time_provider(c);
            if a || spell_defaults {
                x.update_accessed_date(a)
            } else {
                x
            }
        }
        4 => {
            let x = upd(base).oem_cp_converter(o);
            let x = if !st || spell_defaults { x.strict(st) } else { x };
            x.time_provider(c)
        }
        _ => {
            let x = base.time_provider(c);
            let x = if a || spell_defaults { x.update_accessed_date(a) } else { x };
            let x = if !st || spell_defaults { x.strict(st) } else { x };
            x.oem_cp_converter(o)
        }
    }
}

/// payload produced by `guarded`
pub enum Guarded<T> {
    Done(T),
    Panic(String),
    Hang,
}

pub fn guarded<T>(f: impl FnOnce() -> T) -> Guarded<T> {
    match catch_unwind(AssertUnwindSafe(f)) {
        Ok(v) => Guarded::Done(v),
        Err(p) => {
            if p.is::<crate::disk::BudgetOverrun>() {
                Guarded::Hang
            } else if let Some(s) = p.downcast_ref::<String>() {
                Guarded::Panic(s.clone())
            } else if let Some(s) = p.downcast_ref::<&str>() {
                Guarded::Panic((*s).to_string())
            } else {
                Guarded::Panic("<non-string panic>".into())
            }
        }
    }
}

pub fn entry_name_units(e: &FEntry) -> Vec<u16> {
    #[cfg(feature = "f_alloc")]
    {
        e.file_name().encode_utf16().collect()
    }
    #[cfg(not(feature = "f_alloc"))]
    {
        match e.long_file_name_as_ucs2_units() {
            Some(u) => u.to_vec(),
            None => e.short_file_name_as_bytes().iter().map(|b| u16::from(*b)).collect(),
        }
    }
}

/// retrying read of the whole file through a fresh handle
pub fn read_all(f: &mut FFile) -> Result<Vec<u8>, FErr> {
    let mut out = Vec::new();
    let mut buf = [0u8; 4096];
    let mut spins = 0;
    loop {
        match f.read(&mut buf) {
            Ok(0) => return Ok(out),
            Ok(n) => out.extend_from_slice(&buf[..n]),
            Err(fatfs::Error::Io(ref e)) if fatfs::IoError::is_interrupted(e) => {
                spins += 1;
                if spins > 10_000 {
                    return Err(fatfs::Error::Io(e.clone()));
                }
            }
            Err(e) => return Err(e),
        }
    }
}

#[derive(Clone, Debug, PartialEq, Eq, PartialOrd, Ord)]
pub struct LibItem {
    pub path: Vec<Vec<u16>>,
    pub is_dir: bool,
    /// None = not read (file is open elsewhere)
    pub content: Option<Vec<u8>>,
    pub size: u64,
    pub created: Stamp,
    pub modified: Stamp,
    pub accessed: (u16, u16, u16),
    pub attrs: u8,
    pub short: Vec<u8>,
}

pub fn stamp_of(dt: fatfs::DateTime) -> Stamp {
    Stamp { y: dt.date.year, mo: dt.date.month, d: dt.date.day, h: dt.time.hour, mi: dt.time.min, s: dt.time.sec, ms: dt.time.millis }
}

/// Recursive listing through the library. `skip` = paths of files that must not be opened (in flux).
pub fn walk_lib(
    dir: &FDir,
    prefix: &[Vec<u16>],
    skip: &BTreeSet<Vec<Vec<u16>>>,
    out: &mut Vec<LibItem>,
    depth: usize,
) -> Result<(), FErr> {
    if depth > 40 {
        return Err(fatfs::Error::CorruptedFileSystem);
    }
    for r in dir.iter() {
        let e = r?;
        let sb = e.short_file_name_as_bytes();
        if sb == b"." || sb == b".." {
            continue;
        }
        let mut path = prefix.to_vec();
        path.push(entry_name_units(&e));
        let is_dir = e.is_dir();
        let mut item = LibItem {
            path: path.clone(),
            is_dir,
            content: None,
            size: e.len(),
            created: stamp_of(e.created()),
            modified: stamp_of(e.modified()),
            accessed: (e.accessed().year, e.accessed().month, e.accessed().day),
            attrs: e.attributes().bits(),
            short: sb.to_vec(),
        };
        if is_dir {
            out.push(item);
            let sub = e.to_dir();
            walk_lib(&sub, &path, skip, out, depth + 1)?;
        } else {
            if !skip.contains(&path) {
                let mut f = e.to_file();
                item.content = Some(read_all(&mut f)?);
            }
            out.push(item);
        }
    }
    Ok(())
}
