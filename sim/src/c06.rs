//! C06: formatting yields a specification-valid empty volume for every accepted request.
//! (a) full formats of swarm-drawn option sets on (sparse, canary-tailed) SimDisks, checked by refdec and
//!     by mounting; (b) the boot-sector probe: a device that fails everything beyond byte 511 turns
//!     format_volume into "serialize the boot sector for these options", cheap enough to sweep 2^32 sizes.
use crate::disk::{canary, DiskState, LogMode, SimDisk, Store};
use crate::engine::{guarded, viol, Guarded};
use crate::refdec::{self, Geo};
use crate::rng::Rng;
use crate::runner::{Batch, RunOutcome};
use crate::types::*;
use fatfs::{IoBase, Read, Seek, SeekFrom, Write};
use serde::{Deserialize, Serialize};
use serde_json::json;
use std::cell::RefCell;
use std::rc::Rc;

#[derive(Clone, Debug, Serialize, Deserialize)]
pub struct FmtReq {
    pub bps: u16,
    pub total_sectors: u32,
    /// pass total_sectors explicitly (else the library derives it from the device length)
    pub explicit_total: bool,
    pub extra_sectors: u32,
    pub bytes_per_cluster: Option<u32>,
    pub fats: u8,
    pub root_entries: Option<u16>,
    pub fat: Option<u8>,
    pub label: Option<[u8; 11]>,
    pub volume_id: Option<u32>,
    pub media: Option<u8>,
    pub drive_num: Option<u8>,
    pub benign: bool,
}

pub fn options(q: &FmtReq) -> fatfs::FormatVolumeOptions {
    let mut o = fatfs::FormatVolumeOptions::new().bytes_per_sector(q.bps).fats(q.fats);
    if q.explicit_total {
        o = o.total_sectors(q.total_sectors);
    }
    if let Some(b) = q.bytes_per_cluster {
        o = o.bytes_per_cluster(b);
    }
    if let Some(r) = q.root_entries {
        o = o.max_root_dir_entries(r);
    }
    if let Some(f) = q.fat {
        o = o.fat_type(crate::vol::fat_type_of(f));
    }
    if let Some(l) = q.label {
        o = o.volume_label(l);
    }
    if let Some(v) = q.volume_id {
        o = o.volume_id(v);
    }
    if let Some(m) = q.media {
        o = o.media(m);
    }
    if let Some(d) = q.drive_num {
        o = o.drive_num(d);
    }
    o
}

/// geometry rules that follow from the BPB alone (used by the full check and by the probe)
pub fn bpb_rules(g: &Geo, q: &FmtReq) -> Result<(), String> {
    if g.total_sectors != q.total_sectors {
        return Err(format!("declares {} sectors, {} requested", g.total_sectors, q.total_sectors));
    }
    if g.bps != u32::from(q.bps) {
        return Err(format!("sector size {} vs requested {}", g.bps, q.bps));
    }
    if g.nfats != u32::from(q.fats) {
        return Err(format!("{} FATs vs requested {}", g.nfats, q.fats));
    }
    if let Some(f) = q.fat {
        if g.fat_bits != u32::from(f) {
            return Err(format!("FAT{} although FAT{} was requested", g.fat_bits, f));
        }
    }
    if let Some(b) = q.bytes_per_cluster {
        if g.cluster_bytes != u64::from(b) {
            return Err(format!("cluster size {} vs requested {}", g.cluster_bytes, b));
        }
    }
    if g.fat_bits != 32 {
        if let Some(r) = q.root_entries {
            if g.root_entries != u32::from(r) {
                return Err(format!("{} root entries vs requested {}", g.root_entries, r));
            }
        }
    }
    if g.fat_capacity() < u64::from(g.n_clusters) + 2 {
        return Err(format!("FAT of {} bytes holds {} entries, {} clusters need {}", g.fat_bytes, g.fat_capacity(), g.n_clusters, g.n_clusters + 2));
    }
    let max = match g.fat_bits {
        12 => 4084,
        16 => 65524,
        _ => 0x0FFF_FFF4,
    };
    // note: a data area smaller than one cluster (0 clusters) is degenerate but not forbidden by the specification
    if g.n_clusters > max {
        return Err(format!("{} clusters on FAT{}", g.n_clusters, g.fat_bits));
    }
    if g.data_off + u64::from(g.n_clusters) * g.cluster_bytes > g.vol_bytes {
        return Err("regions exceed the declared size".into());
    }
    if g.fat_bits == 32 && (g.root_cluster != 2 || g.fsinfo_sector == 0 || g.backup_sector == 0 || g.fsinfo_sector == g.backup_sector) {
        return Err(format!("FAT32 layout: root {} fsinfo {} backup {}", g.root_cluster, g.fsinfo_sector, g.backup_sector));
    }
    Ok(())
}

/// full end-to-end check of a formatted image
pub fn check_formatted(img: &Store, q: &FmtReq, clock: &crate::clock::SimClock) -> Result<Geo, String> {
    let raw = refdec::raw_bpb(img);
    if raw.sig != [0x55, 0xAA] {
        return Err("boot signature missing".into());
    }
    let g = refdec::coherent(&raw).map_err(|e| format!("incoherent BPB: {}", e))?;
    bpb_rules(&g, q)?;
    if g.vol_bytes > img.len {
        return Err("volume larger than the device".into());
    }
    let media = q.media.unwrap_or(0xF8);
    if g.media != media {
        return Err(format!("media byte {:#x}", g.media));
    }
    // FAT[0], FAT[1], padding, copies
    for copy in 0..g.nfats {
        let e0 = refdec::fat_raw(img, &g, copy, 0);
        let e1 = refdec::fat_raw(img, &g, copy, 1);
        let (w0, w1, m) = match g.fat_bits {
            12 => (0xF00 | u32::from(media), 0xFFF, 0xFFF),
            16 => (0xFF00 | u32::from(media), 0xFFFF, 0xFFFF),
            _ => (0x0FFF_FF00 | u32::from(media), 0x0FFF_FFFF, 0x0FFF_FFFF),
        };
        if e0 & m != w0 || e1 & m != w1 {
            return Err(format!("FAT copy {}: entry0 {:#x} entry1 {:#x}", copy, e0, e1));
        }
        let cap = g.fat_capacity().min(u64::from(g.n_clusters) + 2 + 70_000);
        for c in u64::from(g.n_clusters) + 2..cap {
            if refdec::fat_raw(img, &g, copy, c as u32) & m == 0 {
                return Err(format!("padding FAT entry {} (beyond cluster {}) is free", c, g.n_clusters + 1));
            }
        }
        if copy > 0 && !img.eq_ranges(g.fat_copy_off(0), g.fat_copy_off(copy), g.fat_bytes) {
            return Err(format!("FAT copy {} differs from copy 0", copy));
        }
    }
    let p = refdec::parse_with(img, g.clone())?;
    if !p.findings.is_empty() {
        return Err(format!("fsck: {:?}", p.findings[0]));
    }
    if p.objs.len() != 1 {
        return Err(format!("{} objects on a fresh volume", p.objs.len() - 1));
    }
    let root = &p.dirs[0];
    let want_labels = usize::from(q.label.is_some());
    if root.labels.len() != want_labels {
        return Err(format!("{} label entries", root.labels.len()));
    }
    if let Some(l) = q.label {
        if root.slots[root.labels[0]].b[..11] != l {
            return Err("label entry differs".into());
        }
        if img.get(if g.ext_layout { 71 } else { 43 }, 11) != l {
            return Err("BPB label differs".into());
        }
    }
    for (i, s) in root.slots.iter().enumerate() {
        if root.labels.contains(&i) {
            continue;
        }
        if s.b != [0u8; 32] {
            return Err(format!("root slot {} not zero", i));
        }
    }
    let vid = img.u32_at(if g.ext_layout { 67 } else { 39 });
    if vid != q.volume_id.unwrap_or(0x1234_5678) {
        return Err(format!("volume id {:#x}", vid));
    }
    let want_free = if g.fat_bits == 32 { g.n_clusters - 1 } else { g.n_clusters };
    if p.free != want_free {
        return Err(format!("{} free clusters, expected {}", p.free, want_free));
    }
    if g.fat_bits == 32 {
        let b = u64::from(g.backup_sector) * u64::from(g.bps);
        if img.get(0, g.bps as usize) != img.get(b, g.bps as usize) {
            return Err("backup boot sector differs from the boot sector".into());
        }
        let fo = u64::from(g.fsinfo_sector) * u64::from(g.bps);
        if img.u32_at(fo) != 0x4161_5252 || img.u32_at(fo + 484) != 0x6141_7272 || img.u32_at(fo + 508) != 0xAA55_0000 {
            return Err("FS-info signatures".into());
        }
        if img.u32_at(fo + 488) != g.n_clusters - 1 || img.u32_at(fo + 492) != 3 {
            return Err(format!("FS-info free {} hint {}", img.u32_at(fo + 488), img.u32_at(fo + 492)));
        }
        if refdec::fat_val(img, &g, 2) < g.eoc_min() {
            return Err("root cluster not terminated".into());
        }
    }
    let dmg = img.canary_damage();
    if !dmg.is_empty() {
        return Err(format!("bytes after the declared end written: {:x?}", dmg));
    }
    // it mounts (strict) and stats agree
    let st = Rc::new(RefCell::new(DiskState::new(img.clone())));
    st.borrow_mut().log_mode = LogMode::Off;
    let opts = fatfs::FsOptions::new().time_provider(clock.clone()).oem_cp_converter(SimOcc(Oem::Lossy)).strict(true);
    match guarded(|| -> Result<(u32, u32, u32, u8), FErr> {
        let fs = Fs::new(SimDisk::new(st.clone()), opts)?;
        let s = fs.stats()?;
        let n = fs.root_dir().iter().count() as u32;
        let ft = match fs.fat_type() {
            fatfs::FatType::Fat12 => 12,
            fatfs::FatType::Fat16 => 16,
            fatfs::FatType::Fat32 => 32,
        };
        fs.unmount()?;
        Ok((s.free_clusters(), s.total_clusters(), n, ft))
    }) {
        Guarded::Done(Ok((free, total, n, ft))) => {
            if free != want_free || total != g.n_clusters || n != 0 || u32::from(ft) != g.fat_bits {
                return Err(format!("mounted: free {} total {} entries {} FAT{} vs raw free {} total {} FAT{}", free, total, n, ft, want_free, g.n_clusters, g.fat_bits));
            }
        }
        Guarded::Done(Err(e)) => return Err(format!("does not mount: {:?}", e)),
        Guarded::Panic(m) => return Err(format!("mount panicked: {}", m)),
        Guarded::Hang => return Err("mount hangs".into()),
    }
    Ok(g)
}

pub fn draw_req(r: &mut Rng) -> FmtReq {
    // the options builder accepts any power-of-two sector size >= 512 and any power-of-two cluster size >= 512,
    // also combinations that cannot be satisfied (sector > 4096, cluster smaller than the sector)
    let bps = if r.chance(1, 25) { *r.pick(&[8192u16, 16384, 32768]) } else { *r.pick(&[512u16, 512, 1024, 2048, 4096]) };
    let sh_max = if r.chance(1, 10) { 12 } else { 8 };
    let bpc: Option<u32> = if r.chance(1, 3) {
        None
    } else if r.chance(1, 12) {
        Some(512u32 << r.below(12))
    } else {
        Some((u32::from(bps) << r.below(sh_max)).max(512))
    };
    let fat: Option<u8> = match r.below(6) {
        0 => Some(12),
        1 => Some(16),
        2 => Some(32),
        _ => None,
    };
    let spc = u64::from(bpc.unwrap_or(u32::from(bps)) / u32::from(bps)).max(1);
    let total: u32 = match r.below(10) {
        0 => r.range(1, 100) as u32,
        1 | 2 => {
            // around a FAT-type threshold for this cluster size
            let th = *r.pick(&[4085u64, 65525]);
            let overhead = r.range(1, 600);
            (th * spc + overhead).min(u64::from(u32::MAX)).saturating_sub(r.below(2 * spc + 40)) as u32
        }
        3 => {
            // heuristic switch points in bytes
            let pts: [u64; 9] = [1 << 20, 2 << 20, 4200 << 10, 4 << 20, 8 << 20, 16 << 20, 32 << 20, 64 << 20, 33 << 20];
            let b = *r.pick(&pts);
            ((b / u64::from(bps)) as i64 + r.range(0, 8) as i64 - 4).max(1) as u32
        }
        4 => r.range(100, 3000) as u32,
        5 => r.range(60_000, 75_000) as u32,
        _ => {
            let e = r.range(6, 17);
            ((1u64 << e) + r.below(1u64 << e)) as u32
        }
    };
    let mut total = total.clamp(1, 90_000);
    // FAT32 with clusters larger than a sector needs more sectors than the small sizes above
    if spc >= 2 && spc <= 16 && r.chance(1, 5) {
        total = (65_530 * spc + r.below(3000 * spc) + 1100) as u32;
    }
    let per_sec = (bps / 32) as u32;
    let root: Option<u16> = match r.below(8) {
        0 => None,
        1 => Some(if r.chance(1, 2) { 0 } else { 1 }),
        2 => Some((per_sec + 1) as u16),
        3 => Some(65535),
        4 => Some(r.range(1, 3000) as u16),
        _ => Some((per_sec * r.range(1, 16) as u32) as u16),
    };
    let mut label = None;
    if r.chance(1, 3) {
        let mut l = *b"LABEL      ";
        for b in l.iter_mut().take(r.range(1, 11) as usize) {
            *b = b'A' + r.below(26) as u8;
        }
        label = Some(l);
    }
    FmtReq {
        bps,
        total_sectors: total,
        explicit_total: r.chance(2, 3),
        extra_sectors: 0,
        bytes_per_cluster: bpc,
        fats: r.range(1, 2) as u8,
        root_entries: root,
        fat,
        label,
        volume_id: if r.chance(1, 2) { Some(r.next_u64() as u32) } else { None },
        media: if r.chance(1, 3) { Some(*r.pick(&[0xF0u8, 0xF8, 0xF9, 0xFF])) } else { None },
        drive_num: if r.chance(1, 4) { Some(r.below(256) as u8) } else { None },
        benign: r.chance(1, 4),
    }
}

pub fn full_format(seed: u64) -> RunOutcome {
    let mut r = Rng::new(seed);
    let mut o = RunOutcome::empty();
    let mut q = draw_req(&mut r);
    if q.explicit_total && r.chance(1, 2) {
        q.extra_sectors = r.range(1, 16) as u32;
    }
    let bps = u64::from(q.bps);
    let vol_len = u64::from(q.total_sectors) * bps;
    let dev_len = vol_len + u64::from(q.extra_sectors) * bps + if q.explicit_total { 0 } else { r.below(bps) };
    let mut store = if q.extra_sectors > 0 { Store::with_canary(dev_len, vol_len) } else { Store::new(dev_len) };
    // a third of the requests re-format a medium that holds old (non-zero) data everywhere
    store.dirty_medium = dev_len <= (640 << 20) && r.chance(1, 3);
    let dirty_medium = store.dirty_medium;
    let st = Rc::new(RefCell::new(DiskState::new(store)));
    st.borrow_mut().log_mode = LogMode::Off;
    st.borrow_mut().benign_rng = Rng::new(seed ^ 0xF00D);
    if q.benign {
        st.borrow_mut().plan.benign = crate::disk::Benign { eintr: 50, short_read: 100, short_write: 200 };
    }
    st.borrow_mut().plan.budget = 50_000_000;
    let clock = crate::clock::SimClock::new(crate::clock::MIN_STAMP);
    let mut d = SimDisk::new(st.clone());
    let res = guarded(|| fatfs::format_volume(&mut d, options(&q)));
    drop(d);
    let mk = |class: &str, detail: String| {
        let v = viol("C06", class, format!("{} for {:?}", detail, q), 0);
        (v.clone(), Replay { property: "C06".into(), kind: "c06-format".into(), seed, cfg: dummy_cfg(), steps: vec![], violation: Some(v) })
    };
    *o.counters.entry(format!("fired_short_write")).or_insert(0) += st.borrow().fired.short_write;
    *o.counters.entry(format!("fired_eintr")).or_insert(0) += st.borrow().fired.eintr;
    match res {
        Guarded::Done(Ok(())) => {
            let img = st.borrow().store.clone();
            match check_formatted(&img, &q, &clock) {
                Ok(g) => {
                    *o.counters.entry(format!("accepted_fat{}", g.fat_bits)).or_insert(0) += 1;
                    if dirty_medium {
                        *o.counters.entry("formatted_over_old_data".into()).or_insert(0) += 1;
                    }
                    o.distinct.push(crate::rng::hash_bytes(u64::from(g.n_clusters), format!("{}:{}:{}:{}:{}", g.fat_bits, g.bps, g.spc, g.spf, g.root_entries).as_bytes()));
                    o.sample = Some(json!({"request": format!("{:?}", q), "result": format!("FAT{} clusters={} spf={} reserved={}", g.fat_bits, g.n_clusters, g.spf, g.reserved)}));
                }
                Err(e) => o.violation = Some(mk("formatted-volume-invalid", e)),
            }
        }
        Guarded::Done(Err(fatfs::Error::InvalidInput)) => {
            *o.counters.entry("rejected_invalid_input".into()).or_insert(0) += 1;
            o.distinct.push(crate::rng::hash_bytes(u64::from(q.total_sectors), format!("rej:{}:{:?}:{:?}", q.bps, q.bytes_per_cluster, q.fat).as_bytes()));
        }
        Guarded::Done(Err(e)) => o.violation = Some(mk("format-wrong-error", format!("{:?}", e))),
        Guarded::Panic(m) => o.violation = Some(mk("panic", m)),
        Guarded::Hang => o.violation = Some(mk("hang", String::new())),
    }
    o
}

pub fn dummy_cfg() -> RunCfg {
    RunCfg {
        vol: VolCfg { source: VolSource::Format, fat: 12, bps: 512, spc: 1, fats: 1, root_entries: 16, total_sectors: 100, extra_sectors: 0, ballast_keep: None, ballast_mode: 0, fsinfo_mode: 0, hint: None, status: 0, label: false, tail_taken: 0, dirty_medium: false },
        access_date: false,
        strict: true,
        oem: Oem::Lossy,
        benign: BenignCfg::default(),
        oracles: Oracles::default(),
        start: crate::clock::MIN_STAMP,
        dev_seed: 0,
        ro_skip_sessions: 0,
    }
}

/// A device that accepts bytes 0..511 and fails everything else.
pub struct ProbeDisk {
    pub buf: [u8; 512],
    pub pos: u64,
    /// what the device reports as its size (seek to the end); 0 = it cannot tell
    pub len: u64,
}

impl IoBase for ProbeDisk {
    type Error = crate::disk::SimIoError;
}

fn probe_err() -> crate::disk::SimIoError {
    crate::disk::SimIoError { kind: crate::disk::ErrKind::Hard, id: 512 }
}

impl Read for ProbeDisk {
    fn read(&mut self, _buf: &mut [u8]) -> Result<usize, Self::Error> {
        Err(probe_err())
    }
}

impl Write for ProbeDisk {
    fn write(&mut self, buf: &[u8]) -> Result<usize, Self::Error> {
        let end = self.pos + buf.len() as u64;
        if end > 512 {
            return Err(probe_err());
        }
        self.buf[self.pos as usize..end as usize].copy_from_slice(buf);
        self.pos = end;
        Ok(buf.len())
    }
    fn flush(&mut self) -> Result<(), Self::Error> {
        Ok(())
    }
}

impl Seek for ProbeDisk {
    fn seek(&mut self, pos: SeekFrom) -> Result<u64, Self::Error> {
        let t = match pos {
            SeekFrom::Start(x) => x,
            SeekFrom::Current(d) => (self.pos as i64 + d) as u64,
            SeekFrom::End(0) if self.len > 0 => {
                // size query: allowed, nothing can be read or written there
                self.pos = self.len;
                return Ok(self.len);
            }
            SeekFrom::End(_) => return Err(probe_err()),
        };
        if t > 512 {
            return Err(probe_err());
        }
        self.pos = t;
        Ok(t)
    }
}

pub enum Probe {
    Rejected,
    Sector(Geo),
    Bad(String),
}

/// boot sector the library would write for (options, total_sectors)
pub fn probe(q: &FmtReq) -> Probe {
    probe_dev(q, 0)
}

/// `dev_sectors` > 0: the size is not given in the options, the device reports `dev_sectors` whole sectors (plus a
/// partial one); more than 2^32-1 sectors cannot be described by a FAT boot sector and must be refused
pub fn probe_dev(q: &FmtReq, dev_sectors: u64) -> Probe {
    let len = if dev_sectors > 0 { dev_sectors * u64::from(q.bps) + (dev_sectors * 7919) % u64::from(q.bps) } else { 0 };
    let mut d = ProbeDisk { buf: [0u8; 512], pos: 0, len };
    let mut q2 = q.clone();
    if dev_sectors > 0 {
        q2.explicit_total = false;
        q2.total_sectors = dev_sectors.min(u64::from(u32::MAX)) as u32;
    }
    let q = &q2;
    let res = fatfs::format_volume(&mut d, options(q));
    if dev_sectors > u64::from(u32::MAX) {
        return match res {
            Err(fatfs::Error::InvalidInput) => Probe::Rejected,
            other => Probe::Bad(format!("device of {} sectors (more than 2^32-1): {:?}", dev_sectors, other.err())),
        };
    }
    match res {
        Err(fatfs::Error::InvalidInput) => Probe::Rejected,
        Err(fatfs::Error::Io(_)) => {
            let img = Store::from_bytes(&d.buf);
            let raw = refdec::raw_bpb(&img);
            if raw.sig != [0x55, 0xAA] {
                return Probe::Bad("boot signature missing".into());
            }
            match refdec::coherent(&raw) {
                Ok(g) => match bpb_rules(&g, q) {
                    Ok(()) => Probe::Sector(g),
                    Err(e) => Probe::Bad(e),
                },
                Err(e) => Probe::Bad(format!("incoherent BPB: {}", e)),
            }
        }
        Err(e) => Probe::Bad(format!("unexpected error {:?}", e)),
        Ok(()) => Probe::Bad("format succeeded on a 512-byte device".into()),
    }
}

pub fn default_req(total: u32) -> FmtReq {
    FmtReq { bps: 512, total_sectors: total, explicit_total: true, extra_sectors: 0, bytes_per_cluster: None, fats: 2, root_entries: None, fat: None, label: None, volume_id: None, media: None, drive_num: None, benign: false }
}

/// probe a contiguous range of sizes with default options; returns layout change points
pub fn sweep_default(lo: u64, hi: u64) -> RunOutcome {
    let mut o = RunOutcome::empty();
    o.evaluations = 0;
    let mut last_key: Option<(u32, u32, u32)> = None;
    let mut changes: Vec<u64> = vec![];
    for t in lo..hi {
        let q = default_req(t as u32);
        o.evaluations += 1;
        let r = match guarded(|| probe(&q)) {
            Guarded::Done(p) => p,
            Guarded::Panic(m) => Probe::Bad(format!("panic: {}", m)),
            Guarded::Hang => Probe::Bad("hang".into()),
        };
        // the same size learnt from the device instead of the options (a sixteenth of the sizes, and both ends of the range)
        if t % 16 == 5 || t < 64 || t + 64 > u64::from(u32::MAX) {
            o.evaluations += 1;
            let r2 = match guarded(|| probe_dev(&q, t)) {
                Guarded::Done(p) => p,
                Guarded::Panic(m) => Probe::Bad(format!("panic: {}", m)),
                Guarded::Hang => Probe::Bad("hang".into()),
            };
            let same = match (&r, &r2) {
                (Probe::Rejected, Probe::Rejected) => true,
                (Probe::Sector(a), Probe::Sector(b)) => (a.fat_bits, a.spc, a.reserved, a.n_clusters, a.total_sectors) == (b.fat_bits, b.spc, b.reserved, b.n_clusters, b.total_sectors),
                _ => false,
            };
            if !same {
                let show = |p: &Probe| match p {
                    Probe::Rejected => "rejected".to_string(),
                    Probe::Sector(g) => format!("FAT{} spc={} clusters={} total={}", g.fat_bits, g.spc, g.n_clusters, g.total_sectors),
                    Probe::Bad(e) => format!("invalid: {}", e),
                };
                let v = viol("C06", "device-size-differs-from-explicit-size", format!("{} sectors of 512 bytes, default options: size in the options -> {}; size reported by the device -> {}", t, show(&r), show(&r2)), 0);
                o.violation = Some((v.clone(), Replay { property: "C06".into(), kind: "c06-sweep".into(), seed: t, cfg: dummy_cfg(), steps: vec![], violation: Some(v) }));
                return o;
            }
        }
        match r {
            Probe::Rejected => {
                if t >= 42 {
                    let v = viol("C06", "default-format-rejected", format!("default options rejected for {} sectors of 512 bytes", t), 0);
                    o.violation = Some((v.clone(), Replay { property: "C06".into(), kind: "c06-sweep".into(), seed: t, cfg: dummy_cfg(), steps: vec![], violation: Some(v) }));
                    return o;
                }
                *o.counters.entry("default_sizes_rejected(<42)".into()).or_insert(0) += 1;
            }
            Probe::Sector(g) => {
                let key = (g.fat_bits, g.spc, g.reserved);
                if last_key != Some(key) {
                    changes.push(t);
                    last_key = Some(key);
                    o.distinct.push(crate::rng::hash_bytes(t, b"layout-change"));
                }
            }
            Probe::Bad(e) => {
                let v = viol("C06", "boot-sector-invalid", format!("{} for default options, {} sectors", e, t), 0);
                o.violation = Some((v.clone(), Replay { property: "C06".into(), kind: "c06-sweep".into(), seed: t, cfg: dummy_cfg(), steps: vec![], violation: Some(v) }));
                return o;
            }
        }
    }
    o.counters.insert("layout_change_points".into(), changes.len() as u64);
    o.sample = Some(json!({"default_options_sizes": [lo, hi], "layout_changes_at": changes.iter().take(8).collect::<Vec<_>>()}));
    o
}

/// random / boundary probes over the whole option space
pub fn probe_random(seed: u64) -> RunOutcome {
    let mut r = Rng::new(seed);
    let mut o = RunOutcome::empty();
    o.evaluations = 0;
    for _ in 0..2000 {
        let mut q = draw_req(&mut r);
        q.explicit_total = true;
        q.label = None;
        // sizes over the whole 32-bit range, biased to powers of two and type thresholds
        q.total_sectors = match r.below(6) {
            0 => r.next_u64() as u32,
            1 => {
                let e = r.range(0, 31);
                ((1u64 << e) as i64 + r.range(0, 6) as i64 - 3).clamp(1, i64::from(u32::MAX)) as u32
            }
            2 => u32::MAX - r.below(100) as u32,
            3 => {
                let spc = u64::from(q.bytes_per_cluster.unwrap_or(u32::from(q.bps)) / u32::from(q.bps)).max(1);
                let th = *r.pick(&[4085u64, 65525, 0x0FFF_FFF5]);
                (th * spc + r.below(70_000)).min(u64::from(u32::MAX)) as u32
            }
            _ => q.total_sectors,
        };
        o.evaluations += 1;
        let res = match guarded(|| probe(&q)) {
            Guarded::Done(p) => p,
            Guarded::Panic(m) => Probe::Bad(format!("panic: {}", m)),
            Guarded::Hang => Probe::Bad("hang".into()),
        };
        match res {
            Probe::Rejected => *o.counters.entry("probe_rejected".into()).or_insert(0) += 1,
            Probe::Sector(g) => {
                *o.counters.entry(format!("probe_accepted_fat{}", g.fat_bits)).or_insert(0) += 1;
                o.distinct.push(crate::rng::hash_bytes(u64::from(g.n_clusters), format!("{}:{}:{}", g.fat_bits, g.spc, g.bps).as_bytes()));
            }
            Probe::Bad(e) => {
                let v = viol("C06", "boot-sector-invalid", format!("{} for {:?}", e, q), 0);
                o.violation = Some((v.clone(), Replay { property: "C06".into(), kind: "c06-probe-random".into(), seed, cfg: dummy_cfg(), steps: vec![], violation: Some(v) }));
                return o;
            }
        }
    }
    o
}

/// full format on a sparse device at given size with default options (end-to-end at layout boundaries and large sizes)
pub fn full_default(total: u32) -> RunOutcome {
    let mut o = RunOutcome::empty();
    let q = default_req(total);
    let len = u64::from(total) * 512;
    let st = Rc::new(RefCell::new(DiskState::new(Store::new(len))));
    st.borrow_mut().log_mode = LogMode::Off;
    let clock = crate::clock::SimClock::new(crate::clock::MIN_STAMP);
    let mut d = SimDisk::new(st.clone());
    let res = guarded(|| fatfs::format_volume(&mut d, options(&q)));
    drop(d);
    let mk = |class: &str, detail: String| {
        let v = viol("C06", class, format!("{} for default options, {} sectors", detail, total), 0);
        (v.clone(), Replay { property: "C06".into(), kind: "c06-full-default".into(), seed: u64::from(total), cfg: dummy_cfg(), steps: vec![], violation: Some(v) })
    };
    match res {
        Guarded::Done(Ok(())) => {
            let img = st.borrow().store.clone();
            match check_formatted(&img, &q, &clock) {
                Ok(g) => {
                    o.distinct.push(crate::rng::hash_bytes(u64::from(total), b"full-default"));
                    o.sample = Some(json!({"default_options_total_sectors": total, "result": format!("FAT{} clusters={} cluster_bytes={}", g.fat_bits, g.n_clusters, g.cluster_bytes)}));
                }
                Err(e) => o.violation = Some(mk("formatted-volume-invalid", e)),
            }
        }
        Guarded::Done(Err(e)) => o.violation = Some(mk("default-format-rejected", format!("{:?}", e))),
        Guarded::Panic(m) => o.violation = Some(mk("panic", m)),
        Guarded::Hang => o.violation = Some(mk("hang", String::new())),
    }
    o
}

pub const BOUNDARY_SIZES: &[u32] = &[
    42, 43, 100, 2047, 2048, 2049, 4095, 4096, 4097, 8191, 8192, 8193, 8399, 8400, 8401, 16384, 32767, 32768, 32769, 65535, 65536, 65537, 262143, 262144, 262145, 532479,
    532480, 532481, 1048575, 1048576, 1048577,
];

pub fn batches(tier: &str, seed: u64) -> (Vec<Batch<'static>>, bool) {
    let quick = tier == "quick";
    let mut v: Vec<Batch<'static>> = vec![];
    let n_full = if quick { 400_000u64 } else { 6_000_000 };
    v.push(Batch { name: "full formats of swarm-drawn requests (refdec + mount)".into(), runs: n_full, f: Box::new(move |i| full_format(crate::rng::run_seed(seed, 21, i))) });
    let n_probe = if quick { 8000u64 } else { 100_000 };
    v.push(Batch { name: "boot-sector probes over the option space (failing device)".into(), runs: n_probe, f: Box::new(move |i| probe_random(crate::rng::run_seed(seed, 22, i))) });
    v.push(Batch { name: "default options on devices of more than 2^32-1 sectors (must be refused)".into(), runs: 16, f: Box::new(oversize) });
    v.push(Batch { name: "default options, full format at boundary sizes".into(), runs: BOUNDARY_SIZES.len() as u64, f: Box::new(|i| full_default(BOUNDARY_SIZES[i as usize])) });
    if quick {
        // dense prefix + strided sample of the 32-bit range
        v.push(Batch { name: "default options, every size 1..2^23 (probe)".into(), runs: 256, f: Box::new(|i| sweep_default(1 + i * 32768, 1 + (i + 1) * 32768)) });
        v.push(Batch {
            name: "default options, 2^14-size windows spread over the 32-bit range (probe)".into(),
            runs: 256,
            f: Box::new(move |i| {
                let base = (i << 24) + (crate::rng::run_seed(seed, 23, i) % ((1 << 24) - 16384));
                sweep_default(base.max(1), (base + 16384).min(1 << 32))
            }),
        });
        v.push(Batch { name: "default options, the last 4096 sizes below 2^32 (probe; size from the options and from the device)".into(), runs: 1, f: Box::new(|_| sweep_default((1u64 << 32) - 4096, 1u64 << 32)) });
        (v, false)
    } else {
        // all 2^32 - 1 sizes
        let chunks = 4096u64;
        let per = (1u64 << 32) / chunks;
        v.push(Batch { name: "default options, EVERY total sector count 1..2^32-1 (probe)".into(), runs: chunks, f: Box::new(move |i| sweep_default((i * per).max(1), (i + 1) * per)) });
        // large sparse full formats
        const BIG: &[u32] = &[2_097_152, 8_388_608, 16_777_215, 16_777_216, 16_777_217, 67_108_864, 268_435_456, 1_073_741_824, 2_147_483_648, 4_294_967_295];
        v.push(Batch { name: "default options, full format of large sparse devices (1 GiB .. 2 TiB)".into(), runs: BIG.len() as u64, f: Box::new(|i| full_default(BIG[i as usize])) });
        (v, true)
    }
}

/// devices too large for any FAT boot sector must be refused, not truncated
pub fn oversize(i: u64) -> RunOutcome {
    let mut o = RunOutcome::empty();
    o.evaluations = 0;
    for d in [0u64, 1, 2, 511, 512, 1 << 20, 1 << 31, (1 << 32) - 1, 1 << 32, 1 << 40] {
        let secs = (1u64 << 32) + d + i;
        o.evaluations += 1;
        o.distinct.push(crate::rng::hash_bytes(secs, b"oversize"));
        let r = match guarded(|| probe_dev(&default_req(0), secs)) {
            Guarded::Done(p) => p,
            Guarded::Panic(m) => Probe::Bad(format!("panic: {}", m)),
            Guarded::Hang => Probe::Bad("hang".into()),
        };
        if let Probe::Bad(e) = r {
            let v = viol("C06", "oversize-device-not-refused", e, 0);
            o.violation = Some((v.clone(), Replay { property: "C06".into(), kind: "c06-oversize".into(), seed: i, cfg: dummy_cfg(), steps: vec![], violation: Some(v) }));
            return o;
        }
    }
    o
}

pub fn replay(kind: &str, seed: u64) -> Option<RunOutcome> {
    match kind {
        "c06-oversize" => Some(oversize(seed)),
        "c06-format" => Some(full_format(seed)),
        "c06-sweep" => Some(sweep_default(seed, seed + 1)),
        "c06-probe-random" => Some(probe_random(seed)),
        "c06-full-default" => Some(full_default(seed as u32)),
        _ => None,
    }
}
