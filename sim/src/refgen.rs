//! Independent, specification-driven image builder. It deliberately uses the encoding freedoms the
//! library's own writer never exercises (any EOC value, FAT32 reserved bits, fragmented and backwards
//! chains, 1-3 FATs, mirroring off, reserved area > 1 sector, both total-sector encodings, SFN-only
//! entries with lower-case flags, 0x05 lead byte, OEM bytes, labels anywhere, deleted remnants, ...)
//! and returns the ground truth next to the image.
use crate::disk::{canary, Store};
use crate::refdec::{self, sfn_checksum, Geo};
use crate::rng::Rng;
use crate::types::*;
use std::collections::BTreeSet;

#[derive(Clone, Debug)]
pub struct Truth {
    /// path components: (long name if any, raw 11-byte short name, NT case flags)
    pub path: Vec<(Option<Vec<u16>>, [u8; 11], u8)>,
    pub is_dir: bool,
    pub content: Vec<u8>,
    pub attr: u8,
    pub ctime_tenth: u8,
    pub ctime: u16,
    pub cdate: u16,
    pub adate: u16,
    pub mtime: u16,
    pub mdate: u16,
    pub chain: Vec<u32>,
}

impl Truth {
    pub fn display_path(&self, occ: SimOcc) -> Vec<Vec<u16>> {
        self.path.iter().map(|(l, s, nt)| display_units(l.as_ref(), s, *nt, occ)).collect()
    }
}

pub fn display_units(long: Option<&Vec<u16>>, sfn: &[u8; 11], nt: u8, occ: SimOcc) -> Vec<u16> {
    if let Some(l) = long {
        return l.clone();
    }
    let mut out = vec![];
    for b in refdec::short_display(sfn, nt) {
        let mut buf = [0u16; 2];
        out.extend_from_slice(occ.dec(b).encode_utf16(&mut buf));
    }
    out
}

pub struct Built {
    pub store: Store,
    pub truth: Vec<Truth>,
    pub geo: Geo,
    pub label: Option<[u8; 11]>,
    pub features: Vec<&'static str>,
}

struct Node {
    long: Option<Vec<u16>>,
    sfn: [u8; 11],
    nt: u8,
    is_dir: bool,
    attr: u8,
    content: Vec<u8>,
    children: Vec<usize>,
    parent: Option<usize>,
    stamps: [u16; 5],
    tenth: u8,
    chain: Vec<u32>,
}

const LONG_POOL: &[&str] = &[
    "Readme.txt", "a long file name.document", "ünïcödé näme.txt", "日本語.txt", "x", "Mixed Case Dir", "lower", "with.many.dots.in.name", "thirteen_char", "exactly 26 characters long",
    "name with trailing space.t", "ALLCAPS LONG NAME.TXT", "ß-sharp", "a+b=c;d,e[f]", "δοκιμή", "tab-less", "The quick brown fox jumps over the lazy dog and keeps running for a while.longext",
];

fn valid_date(r: &mut Rng) -> u16 {
    let y = r.below(128) as u16;
    let m = r.range(1, 12) as u16;
    let d = r.range(1, 28) as u16;
    (y << 9) | (m << 5) | d
}

fn valid_time(r: &mut Rng) -> u16 {
    ((r.below(24) as u16) << 11) | ((r.below(60) as u16) << 5) | r.below(30) as u16
}

fn fold16(u: &[u16]) -> Vec<u32> {
    refdec::fold_units(u)
}

pub fn build(v: &VolCfg, seed: u64) -> Result<Built, String> {
    let mut r = Rng::new(seed ^ 0x4EF6E4);
    let mut features: Vec<&'static str> = vec![];
    let bps = u64::from(v.bps);
    let spc = u64::from(v.spc);
    let bits: u64 = u64::from(v.fat);
    let nfats = u64::from(v.fats.clamp(1, 3));
    // --- geometry from the wanted size ---
    let reserved: u64 = if v.fat == 32 { *r.pick(&[3u64, 8, 32, 33, 64]) } else { *r.pick(&[1u64, 1, 2, 4, 8]) };
    if reserved > 1 && v.fat != 32 {
        features.push("reserved>1 on FAT12/16");
    }
    let root_entries: u64 = if v.fat == 32 { 0 } else { u64::from(v.root_entries.max((v.bps / 32) as u16)) };
    let root_secs = (root_entries * 32 + bps - 1) / bps;
    let (lo, hi) = match v.fat {
        12 => (1u64, 4084u64),
        16 => (4085, 65524),
        _ => (65525, 0x0FFF_FFF4),
    };
    // wanted cluster count from the requested total
    let want_total = u64::from(v.total_sectors);
    let mut n = (want_total.saturating_sub(reserved + root_secs) / spc).clamp(lo, hi);
    let mut spf;
    loop {
        spf = ((n + 2) * bits + 8 * bps - 1) / (8 * bps) + if r.chance(1, 4) { r.range(1, 3) } else { 0 };
        let total = reserved + nfats * spf + root_secs + n * spc;
        if total <= want_total.max(reserved + nfats * spf + root_secs + lo * spc) || n == lo {
            break;
        }
        let over = total - want_total;
        n = n.saturating_sub(over / spc + 1).max(lo);
    }
    let slack = r.below(spc);
    let total = reserved + nfats * spf + root_secs + n * spc + slack;
    if total > u64::from(u32::MAX) {
        return Err("volume too large".into());
    }
    if v.fat != 32 && spf > 0xFFFF {
        return Err("FAT too large for FAT12/16".into());
    }
    let vol_bytes = total * bps;
    let dev_len = vol_bytes + u64::from(v.extra_sectors) * bps;
    let mut img = if v.extra_sectors > 0 { Store::with_canary(dev_len, vol_bytes) } else { Store::new(dev_len) };
    // --- boot sector ---
    let mut bs = vec![0u8; 512];
    bs[0] = 0xEB;
    bs[1] = if v.fat == 32 { 0x58 } else { 0x3C };
    bs[2] = 0x90;
    bs[3..11].copy_from_slice(b"REFGEN10");
    bs[11..13].copy_from_slice(&(v.bps).to_le_bytes());
    bs[13] = v.spc;
    bs[14..16].copy_from_slice(&(reserved as u16).to_le_bytes());
    bs[16] = nfats as u8;
    bs[17..19].copy_from_slice(&(root_entries as u16).to_le_bytes());
    let use16 = v.fat != 32 && total < 0x10000 && r.chance(2, 3);
    if use16 {
        bs[19..21].copy_from_slice(&(total as u16).to_le_bytes());
    } else {
        bs[32..36].copy_from_slice(&(total as u32).to_le_bytes());
        if total < 0x10000 {
            features.push("small volume with 32-bit total-sector field");
        }
    }
    let media = *r.pick(&[0xF8u8, 0xF0, 0xF9, 0xFA]);
    bs[21] = media;
    bs[24..26].copy_from_slice(&63u16.to_le_bytes());
    bs[26..28].copy_from_slice(&255u16.to_le_bytes());
    bs[28..32].copy_from_slice(&(r.below(1 << 20) as u32).to_le_bytes());
    let mut ext_flags = 0u16;
    let mut active = 0u64;
    let (fsinfo_sec, backup_sec) = if v.fat == 32 { (1u64, if reserved > 6 { 6 } else { 2 }) } else { (0, 0) };
    if v.fat == 32 {
        bs[36..40].copy_from_slice(&(spf as u32).to_le_bytes());
        if nfats > 1 && r.chance(1, 3) {
            active = r.below(nfats);
            ext_flags = 0x80 | active as u16;
            features.push("FAT mirroring disabled");
        } else if r.chance(1, 3) {
            // the active-FAT number only means something while mirroring is off; a formatter may leave anything there
            ext_flags = r.range(1, 15) as u16;
            features.push("mirroring enabled with a stale non-zero active-FAT number");
        }
        bs[40..42].copy_from_slice(&ext_flags.to_le_bytes());
        bs[48..50].copy_from_slice(&(fsinfo_sec as u16).to_le_bytes());
        bs[50..52].copy_from_slice(&(backup_sec as u16).to_le_bytes());
        bs[64] = 0x80;
        bs[65] = v.status;
        bs[66] = 0x29;
        bs[67..71].copy_from_slice(&0xCAFE_F00Du32.to_le_bytes());
        bs[71..82].copy_from_slice(b"REFGEN VOL ");
        bs[82..90].copy_from_slice(b"FAT32   ");
    } else {
        bs[22..24].copy_from_slice(&(spf as u16).to_le_bytes());
        bs[36] = 0x80;
        bs[37] = v.status;
        bs[38] = 0x29;
        bs[39..43].copy_from_slice(&0xCAFE_F00Du32.to_le_bytes());
        bs[43..54].copy_from_slice(b"REFGEN VOL ");
        bs[54..62].copy_from_slice(if v.fat == 12 { b"FAT12   " } else { b"FAT16   " });
    }
    bs[510] = 0x55;
    bs[511] = 0xAA;
    if nfats == 3 {
        features.push("3 FAT copies");
    }
    // --- cluster allocator over 2..n+1 with some bad clusters ---
    let mut free: Vec<u32> = (2..(n + 2) as u32).collect();
    // keep the pool small for speed on FAT32: allocate from a window
    if free.len() > 6000 {
        let start = r.usize_below(free.len() - 6000);
        free = free[start..start + 6000].to_vec();
    }
    let mut bad: Vec<u32> = vec![];
    for _ in 0..r.below(4) {
        if free.len() > 50 {
            let i = r.usize_below(free.len());
            bad.push(free.swap_remove(i));
        }
    }
    if !bad.is_empty() {
        features.push("bad clusters");
    }
    let frag = r.below(3);
    let alloc = |r: &mut Rng, free: &mut Vec<u32>, k: usize| -> Option<Vec<u32>> {
        if free.len() < k {
            return None;
        }
        let mut ch = vec![];
        match frag {
            0 => {
                // contiguous-ish from the front
                for _ in 0..k {
                    ch.push(free.remove(0));
                }
            }
            1 => {
                for _ in 0..k {
                    let i = r.usize_below(free.len());
                    ch.push(free.swap_remove(i));
                }
            }
            _ => {
                // backwards
                for _ in 0..k {
                    let i = free.len() - 1 - r.usize_below(free.len().min(8));
                    ch.push(free.remove(i));
                }
            }
        }
        Some(ch)
    };
    if frag > 0 {
        features.push("fragmented / backwards chains");
    }
    let cluster_bytes = (spc * bps) as usize;
    // --- tree ---
    let mut nodes: Vec<Node> = vec![Node { long: None, sfn: [b' '; 11], nt: 0, is_dir: true, attr: 0x10, content: vec![], children: vec![], parent: None, stamps: [0; 5], tenth: 0, chain: vec![] }];
    let root_chain = if v.fat == 32 { alloc(&mut r, &mut free, 1).ok_or("no space for root")? } else { vec![] };
    if v.fat == 32 {
        bs[44..48].copy_from_slice(&root_chain[0].to_le_bytes());
        if root_chain[0] != 2 {
            features.push("FAT32 root directory not at cluster 2");
        }
    }
    nodes[0].chain = root_chain;
    let n_objs = r.range(3, 22) as usize;
    let mut alias_ctr = 1u32;
    for _ in 0..n_objs {
        let dirs: Vec<usize> = (0..nodes.len()).filter(|i| nodes[*i].is_dir && depth(&nodes, *i) < 3).collect();
        let parent = *r.pick(&dirs);
        // fixed root capacity: leave room
        if parent == 0 && v.fat != 32 {
            let used: usize = nodes[0].children.iter().map(|c| slots_of(&nodes[*c])).sum();
            if (used + 24) as u64 > root_entries {
                continue;
            }
        }
        let is_dir = r.chance(1, 3);
        let form = r.below(10);
        let (long, sfn, nt): (Option<Vec<u16>>, [u8; 11], u8) = if form < 5 {
            // long name + generated alias
            let base = *r.pick(LONG_POOL);
            let name = format!("{}{}", base, if r.chance(1, 2) { String::new() } else { format!(" {}", r.below(50)) });
            let units: Vec<u16> = name.encode_utf16().collect();
            let mut s = [b' '; 11];
            let mut k = 0;
            for ch in name.chars() {
                if k >= 6 {
                    break;
                }
                if ch.is_ascii_alphanumeric() {
                    s[k] = ch.to_ascii_uppercase() as u8;
                    k += 1;
                }
            }
            if k == 0 {
                s[0] = b'_';
                k = 1;
            }
            let tail = format!("~{}", alias_ctr);
            alias_ctr += 1;
            let tb = tail.as_bytes();
            let k2 = k.min(8 - tb.len());
            s[k2..k2 + tb.len()].copy_from_slice(tb);
            s[8..11].copy_from_slice(b"LFN");
            (Some(units), s, 0)
        } else if form < 7 {
            // plain upper-case 8.3
            let mut s = [b' '; 11];
            let l = r.range(1, 8) as usize;
            for b in s.iter_mut().take(l) {
                *b = *r.pick(b"ABCDEFGHIJKLMNOPQRSTUVWXYZ0123456789_-~!#$%&'()@^`{}");
            }
            let e = r.below(4) as usize;
            for i in 0..e {
                s[8 + i] = *r.pick(b"ABCXYZ019");
            }
            (None, s, 0)
        } else if form < 9 {
            // SFN only with NT lower-case flags
            let mut s = [b' '; 11];
            let l = r.range(1, 8) as usize;
            for b in s.iter_mut().take(l) {
                *b = b'A' + r.below(26) as u8;
            }
            let e = r.range(1, 3) as usize;
            for i in 0..e {
                s[8 + i] = b'A' + r.below(26) as u8;
            }
            features.push("SFN-only entries with lower-case flags");
            (None, s, *r.pick(&[0x08u8, 0x10, 0x18]))
        } else {
            // OEM bytes and the 0x05 lead byte
            let mut s = [b' '; 11];
            s[0] = if r.chance(1, 2) { 0x05 } else { 0x80 + r.below(0x65) as u8 };
            s[1] = b'A' + r.below(26) as u8;
            s[2] = b'0' + r.below(10) as u8;
            s[3] = b'0' + r.below(10) as u8;
            s[8] = b'O';
            s[9] = b'E';
            s[10] = b'M';
            features.push("OEM bytes / 0x05 lead byte in short names");
            (None, s, 0)
        };
        // uniqueness (both converters, both name kinds)
        let mut clash = false;
        for occ in [SimOcc(Oem::Lossy), SimOcc(Oem::Cp437)] {
            let d = fold16(&display_units(long.as_ref(), &sfn, nt, occ));
            let a = fold16(&display_units(None, &sfn, 0, occ));
            for c in &nodes[parent].children {
                let o = &nodes[*c];
                let od = fold16(&display_units(o.long.as_ref(), &o.sfn, o.nt, occ));
                let oa = fold16(&display_units(None, &o.sfn, 0, occ));
                if d == od || d == oa || a == od || a == oa {
                    clash = true;
                }
            }
        }
        if clash || sfn[0] == b' ' {
            continue;
        }
        let attr = if is_dir { 0x10 | *r.pick(&[0u8, 0, 0x01, 0x02, 0x04, 0x20, 0x07]) } else { *r.pick(&[0u8, 0x20, 0x20, 0x01, 0x02, 0x04, 0x21, 0x27, 0x06]) };
        let content = if is_dir {
            vec![]
        } else {
            let len = match r.below(8) {
                0 => 0,
                1 => cluster_bytes,
                2 => cluster_bytes + 1,
                3 => 2 * cluster_bytes,
                4 => r.usize_below(3 * cluster_bytes.min(8192) + 1),
                _ => r.usize_below(200),
            };
            let mut c = vec![0u8; len];
            r.fill(&mut c);
            c
        };
        let need = if is_dir { 1 } else { (content.len() + cluster_bytes - 1) / cluster_bytes };
        let Some(chain) = alloc(&mut r, &mut free, need) else { continue };
        let id = nodes.len();
        nodes.push(Node {
            long,
            sfn,
            nt,
            is_dir,
            attr,
            content,
            children: vec![],
            parent: Some(parent),
            stamps: [valid_time(&mut r), valid_date(&mut r), valid_date(&mut r), valid_time(&mut r), valid_date(&mut r)],
            tenth: r.below(200) as u8,
            chain,
        });
        nodes[parent].children.push(id);
    }
    // --- directories: slot streams ---
    let label: Option<[u8; 11]> = if r.chance(1, 2) { Some(*b"REFGENLABEL") } else { None };
    // other systems set further attribute bits on the label entry (e.g. ARCHIVE)
    let label_attr: u8 = *r.pick(&[0x08u8, 0x08, 0x28, 0x0A, 0x09, 0x2C]);
    if label.is_some() && label_attr != 0x08 {
        features.push("volume label entry with additional attribute bits");
    }
    let mut fat_next: Vec<(u32, u32)> = vec![]; // (cluster, value)
    let eoc = |r: &mut Rng| -> u32 {
        let low = 0xF8 + r.below(8) as u32;
        match v.fat {
            12 => 0xF00 | low,
            16 => 0xFF00 | low,
            _ => 0x0FFF_FF00 | low,
        }
    };
    let dir_ids: Vec<usize> = (0..nodes.len()).filter(|i| nodes[*i].is_dir).collect();
    for &d in &dir_ids {
        let mut slots: Vec<[u8; 32]> = vec![];
        if d != 0 {
            let own = nodes[d].chain[0];
            let par = nodes[d].parent.unwrap();
            let parc = if par == 0 { 0 } else { nodes[par].chain[0] };
            slots.push(sfn_slot(b".          ", 0x10, 0, own, 0, &nodes[d].stamps, nodes[d].tenth, v.fat));
            slots.push(sfn_slot(b"..         ", 0x10, 0, parc, 0, &nodes[d].stamps, nodes[d].tenth, v.fat));
        }
        let kids = nodes[d].children.clone();
        let label_pos = if d == 0 && label.is_some() { Some(r.usize_below(kids.len() + 1)) } else { None };
        for (ki, k) in kids.iter().enumerate() {
            if label_pos == Some(ki) {
                slots.push(sfn_slot(&label.unwrap(), label_attr, 0, 0, 0, &[0; 5], 0, v.fat));
                if ki > 0 {
                    features.push("volume label in the middle of the root directory");
                }
            }
            // deleted remnants between live entries
            if r.chance(1, 3) {
                let cnt = r.range(1, 3);
                for _ in 0..cnt {
                    let mut junk = [0u8; 32];
                    r.fill(&mut junk);
                    junk[0] = 0xE5;
                    if r.chance(1, 2) {
                        junk[11] = 0x0F;
                    }
                    slots.push(junk);
                }
                features.push("deleted slots between live entries");
            }
            let nd = &nodes[*k];
            if let Some(l) = &nd.long {
                let chk = sfn_checksum(&nd.sfn);
                let cnt = (l.len() + 12) / 13;
                let mut padded = l.clone();
                if padded.len() % 13 != 0 {
                    padded.push(0);
                    while padded.len() % 13 != 0 {
                        padded.push(0xFFFF);
                    }
                }
                for i in (1..=cnt).rev() {
                    let mut u = [0u16; 13];
                    u.copy_from_slice(&padded[(i - 1) * 13..i * 13]);
                    slots.push(crate::c17::mk_lfn(i as u8 | if i == cnt { 0x40 } else { 0 }, chk, &u, 0x0F, 0, 0));
                }
            }
            let first = nd.chain.first().copied().unwrap_or(0);
            slots.push(sfn_slot(&nd.sfn, nd.attr, nd.nt, first, if nd.is_dir { 0 } else { nd.content.len() as u32 }, &nd.stamps, nd.tenth, v.fat));
        }
        if label_pos == Some(kids.len()) {
            slots.push(sfn_slot(&label.unwrap(), label_attr, 0, 0, 0, &[0; 5], 0, v.fat));
        }
        if d == 0 && v.fat != 32 {
            if slots.len() as u64 > root_entries {
                return Err("root overflow".into());
            }
            let base = (reserved + nfats * spf) * bps;
            for (i, s) in slots.iter().enumerate() {
                img.write_at(base + (i as u64) * 32, s);
            }
        } else {
            let per = cluster_bytes / 32;
            // sometimes fill the last cluster completely (no end marker), sometimes add an empty trailing cluster
            if r.chance(1, 5) && !slots.is_empty() {
                while slots.len() % per != 0 {
                    let mut junk = [0u8; 32];
                    junk[0] = 0xE5;
                    slots.push(junk);
                }
                features.push("directory whose last cluster is completely full (no end marker)");
            }
            let mut need = (slots.len() + per - 1) / per;
            need = need.max(1);
            if r.chance(1, 6) {
                need += 1;
            }
            while nodes[d].chain.len() < need {
                match alloc(&mut r, &mut free, 1) {
                    Some(c) => nodes[d].chain.push(c[0]),
                    None => return Err("out of clusters".into()),
                }
            }
            if nodes[d].chain.len() > 1 {
                features.push("directory spanning several (non-adjacent) clusters");
            }
            for (i, s) in slots.iter().enumerate() {
                let c = nodes[d].chain[i / per];
                let off = (reserved + nfats * spf + root_secs) * bps + u64::from(c - 2) * cluster_bytes as u64 + ((i % per) * 32) as u64;
                img.write_at(off, s);
            }
        }
    }
    // --- data + FAT entries ---
    let data_off = (reserved + nfats * spf + root_secs) * bps;
    for nd in nodes.iter() {
        for (i, c) in nd.chain.iter().enumerate() {
            let val = if i + 1 < nd.chain.len() { nd.chain[i + 1] } else { eoc(&mut r) };
            fat_next.push((*c, val));
            if !nd.is_dir {
                let lo = i * cluster_bytes;
                let hi = ((i + 1) * cluster_bytes).min(nd.content.len());
                if lo < hi {
                    img.write_at(data_off + u64::from(*c - 2) * cluster_bytes as u64, &nd.content[lo..hi]);
                }
                // slack after the end of the file inside its last cluster holds garbage
                if hi - lo < cluster_bytes && hi > lo && r.chance(1, 2) {
                    let mut g = vec![0u8; (cluster_bytes - (hi - lo)).min(64)];
                    r.fill(&mut g);
                    img.write_at(data_off + u64::from(*c - 2) * cluster_bytes as u64 + (hi - lo) as u64, &g);
                }
            }
        }
    }
    for b in &bad {
        fat_next.push((*b, match v.fat {
            12 => 0xFF7,
            16 => 0xFFF7,
            _ => 0x0FFF_FFF7,
        }));
    }
    let fat_bytes = spf * bps;
    let write_entry = |img: &mut Store, copy: u64, c: u32, val: u32| {
        let base = (reserved + copy * spf) * bps;
        match v.fat {
            12 => {
                let o = base + u64::from(c) + u64::from(c / 2);
                let w = img.u16_at(o);
                let nw = if c & 1 == 0 { (w & 0xF000) | (val as u16 & 0xFFF) } else { (w & 0x000F) | ((val as u16) << 4) };
                img.put_u16(o, nw);
            }
            16 => img.put_u16(base + u64::from(c) * 2, val as u16),
            _ => img.put_u32(base + u64::from(c) * 4, val),
        }
    };
    let fat1_mode = if v.fat != 12 && r.chance(1, 4) { r.range(1, 2) } else { 0 };
    if fat1_mode != 0 {
        features.push("FAT[1] with the clean-shutdown or hard-error bit cleared");
    }
    let pad_marked = r.chance(1, 2);
    if !pad_marked {
        features.push("FAT padding entries past the last cluster left zero");
    }
    let hi_bits = v.fat == 32 && r.chance(1, 2);
    if hi_bits {
        features.push("FAT32 entries with non-zero reserved high bits");
    }
    for copy in 0..nfats {
        let live = ext_flags & 0x80 == 0 || copy == active;
        if !live {
            // inactive copy: garbage (must never be read or written)
            let mut g = vec![0u8; fat_bytes.min(4096) as usize];
            r.fill(&mut g);
            img.write_at((reserved + copy * spf) * bps, &g);
            continue;
        }
        let e0 = match v.fat {
            12 => 0xF00 | u32::from(media),
            16 => 0xFF00 | u32::from(media),
            _ => 0x0FFF_FF00 | u32::from(media),
        };
        let e1 = match v.fat {
            12 => 0xFFF,
            16 => 0xFFFF,
            _ => 0x0FFF_FFFF,
        };
        write_entry(&mut img, copy, 0, e0);
        // FAT[1] carries the clean-shutdown / hard-error bits other drivers maintain (cleared bit = flag raised)
        let e1_flags = match (v.fat, fat1_mode) {
            (16, 1) => 0x7FFF,
            (16, 2) => 0xBFFF,
            (32, 1) => 0x07FF_FFFF,
            (32, 2) => 0x0BFF_FFFF,
            _ => e1,
        };
        write_entry(&mut img, copy, 1, e1_flags);
        let mut r2 = Rng::new(seed ^ 0xB175);
        for (c, val) in &fat_next {
            let hb = if hi_bits { (r2.below(16) as u32) << 28 } else { 0 };
            write_entry(&mut img, copy, *c, *val | hb);
        }
        // entries beyond the last cluster up to the FAT capacity: some formatters mark them, others leave zeros
        if pad_marked {
            let cap = (fat_bytes * 8 / bits).min(n + 2 + 4096);
            for c in (n + 2)..cap {
                write_entry(&mut img, copy, c as u32, e1);
            }
        }
    }
    img.write_at(0, &bs);
    if v.fat == 32 {
        img.write_at(backup_sec * bps, &bs);
        let mut fi = vec![0u8; 512];
        fi[0..4].copy_from_slice(&0x4161_5252u32.to_le_bytes());
        fi[484..488].copy_from_slice(&0x6141_7272u32.to_le_bytes());
        let used = fat_next.len() as u64;
        let cnt: u32 = match v.fsinfo_mode {
            0 => (n - used) as u32,
            1 => 0xFFFF_FFFF,
            _ => (n + 5) as u32,
        };
        fi[488..492].copy_from_slice(&cnt.to_le_bytes());
        let hint: u32 = v.hint.unwrap_or_else(|| if r.chance(1, 2) { 0xFFFF_FFFF } else { r.range(2, n + 1) as u32 });
        fi[492..496].copy_from_slice(&hint.to_le_bytes());
        fi[508..512].copy_from_slice(&0xAA55_0000u32.to_le_bytes());
        img.write_at(fsinfo_sec * bps, &fi);
        if backup_sec + 1 < reserved {
            img.write_at((backup_sec + 1) * bps, &fi);
        }
    }
    // canary in unused reserved sectors
    for sec in 1..reserved {
        if v.fat == 32 && (sec == fsinfo_sec || sec == backup_sec || sec == backup_sec + 1) {
            continue;
        }
        let base = sec * bps;
        let pat: Vec<u8> = (0..bps).map(|i| canary(base + i)).collect();
        img.write_at(base, &pat);
    }
    // --- ground truth ---
    let mut truth = vec![];
    for i in 1..nodes.len() {
        let mut path = vec![];
        let mut c = i;
        while let Some(p) = nodes[c].parent {
            path.push((nodes[c].long.clone(), nodes[c].sfn, nodes[c].nt));
            c = p;
        }
        path.reverse();
        let nd = &nodes[i];
        truth.push(Truth {
            path,
            is_dir: nd.is_dir,
            content: nd.content.clone(),
            attr: nd.attr,
            ctime_tenth: nd.tenth,
            ctime: nd.stamps[0],
            cdate: nd.stamps[1],
            adate: nd.stamps[2],
            mtime: nd.stamps[3],
            mdate: nd.stamps[4],
            chain: nd.chain.clone(),
        });
    }
    let geo = refdec::geo(&img).map_err(|e| format!("refgen produced an incoherent volume: {}", e))?;
    if geo.fat_bits != u32::from(v.fat) || u64::from(geo.n_clusters) != n {
        return Err(format!("refgen geometry mismatch: wanted FAT{} with {} clusters, decoder sees FAT{} with {}", v.fat, n, geo.fat_bits, geo.n_clusters));
    }
    features.sort_unstable();
    features.dedup();
    Ok(Built { store: img, truth, geo, label, features })
}

fn depth(nodes: &[Node], mut i: usize) -> usize {
    let mut d = 0;
    while let Some(p) = nodes[i].parent {
        d += 1;
        i = p;
    }
    d
}

fn slots_of(n: &Node) -> usize {
    1 + n.long.as_ref().map_or(0, |l| (l.len() + 12) / 13) + 3
}

#[allow(clippy::too_many_arguments)]
fn sfn_slot(name: &[u8; 11], attr: u8, nt: u8, cluster: u32, size: u32, stamps: &[u16; 5], tenth: u8, fat: u8) -> [u8; 32] {
    let mut b = [0u8; 32];
    b[..11].copy_from_slice(name);
    b[11] = attr;
    b[12] = nt;
    b[13] = tenth;
    b[14..16].copy_from_slice(&stamps[0].to_le_bytes());
    b[16..18].copy_from_slice(&stamps[1].to_le_bytes());
    b[18..20].copy_from_slice(&stamps[2].to_le_bytes());
    if fat == 32 {
        b[20..22].copy_from_slice(&((cluster >> 16) as u16).to_le_bytes());
    } else if stamps[3] % 3 == 0 && name[0] != b'.' {
        // FAT12/16: not part of the cluster number; other systems keep an extended-attribute handle here
        b[20..22].copy_from_slice(&(stamps[4] | 1).to_le_bytes());
    }
    b[22..24].copy_from_slice(&stamps[3].to_le_bytes());
    b[24..26].copy_from_slice(&stamps[4].to_le_bytes());
    b[26..28].copy_from_slice(&(cluster as u16).to_le_bytes());
    b[28..32].copy_from_slice(&size.to_le_bytes());
    b
}

/// fold helper used by the harness self test
pub fn unique_names(t: &[Truth]) -> bool {
    let mut seen: BTreeSet<Vec<Vec<u32>>> = BTreeSet::new();
    for x in t {
        let k: Vec<Vec<u32>> = x.display_path(SimOcc(Oem::Lossy)).iter().map(|c| fold16(c)).collect();
        if !seen.insert(k) {
            return false;
        }
    }
    true
}
