//! Independent image builder (placeholder until the builder lands).
use crate::disk::Store;
use crate::types::VolCfg;

pub struct Built {
    pub store: Store,
}

pub fn build(_v: &VolCfg, _seed: u64) -> Result<Built, String> {
    Err("refgen not built yet".into())
}
