//! C17: directory decoding is total on arbitrary slot contents. `corrupt_at_rest` faults on directory
//! regions (fixed root, FAT32 root, multi-cluster subdirectory) of valid volumes; a read-only session then
//! iterates and calls every accessor. Compiled twice: with the Vec-backed and the fixed long-name buffer.
use crate::disk::{DiskState, FaultPlan, LogMode, SimDisk, Store};
use crate::engine::{guarded, viol, Guarded};
use crate::refdec::{self, LfnVerdict, Slot, SlotClass};
use crate::rng::Rng;
use crate::runner::{Batch, RunOutcome};
use crate::types::*;
use serde_json::json;
use std::cell::RefCell;
use std::rc::Rc;

pub struct Base {
    pub store: Store,
    /// byte offsets of the slots that may be overwritten, in directory order
    pub slots: Vec<u64>,
    /// path to open ("" = root)
    pub path: &'static str,
    pub name: &'static str,
}

thread_local! {
    static BASES: RefCell<Option<Vec<Rc<Base>>>> = const { RefCell::new(None) };
}

fn build_bases() -> Vec<Rc<Base>> {
    let mut out = vec![];
    let specs: [(u8, u32, bool, &str); 3] = [(12, 1200, false, "FAT12 fixed root (64 slots)"), (16, 9000, true, "FAT16 subdirectory spanning 3 clusters"), (32, 67000, false, "FAT32 root spanning 3 clusters")];
    for (fat, total, sub, name) in specs {
        let v = VolCfg { source: VolSource::Format, fat, bps: 512, spc: 1, fats: 1, root_entries: 64, total_sectors: total, extra_sectors: 0, ballast_keep: None, ballast_mode: 0, fsinfo_mode: 0, hint: None, status: 0, label: false, tail_taken: 0, dirty_medium: false };
        let store = crate::vol::format_store(&v).expect("harness: c17 base");
        let st = Rc::new(RefCell::new(DiskState::new(store)));
        st.borrow_mut().log_mode = LogMode::Off;
        {
            let clock = crate::clock::SimClock::new(crate::clock::MIN_STAMP);
            let opts = fatfs::FsOptions::new().time_provider(clock).oem_cp_converter(SimOcc(Oem::Lossy));
            let fs = Fs::new(SimDisk::new(st.clone()), opts).expect("harness: c17 mount");
            {
                let root = fs.root_dir();
                let dir = if sub { root.create_dir("sub").unwrap() } else { root };
                if fat != 12 {
                    // grow the directory to three clusters (16 slots each), then remove the fillers
                    for i in 0..20 {
                        dir.create_file(&format!("filler name {:02}", i)).unwrap();
                    }
                    for i in 0..20 {
                        dir.remove(&format!("filler name {:02}", i)).unwrap();
                    }
                }
            }
            fs.unmount().unwrap();
        }
        let store = Rc::try_unwrap(st).ok().unwrap().into_inner().store;
        let p = refdec::parse(&store).expect("harness: c17 parse");
        let di = if sub { p.dir_of(p.find(&["sub".encode_utf16().collect()]).unwrap()).unwrap() } else { &p.dirs[0] };
        let skip = if sub { 2 } else { 0 };
        let slots: Vec<u64> = di.slots.iter().skip(skip).map(|s| s.off).collect();
        out.push(Rc::new(Base { store, slots, path: if sub { "sub" } else { "" }, name }));
    }
    out
}

pub fn base(i: usize) -> Rc<Base> {
    BASES.with(|b| {
        let mut b = b.borrow_mut();
        if b.is_none() {
            *b = Some(build_bases());
        }
        b.as_ref().unwrap()[i].clone()
    })
}

pub fn mk_lfn(order: u8, chk: u8, units: &[u16; 13], attr: u8, typ: u8, clus: u16) -> [u8; 32] {
    let mut b = [0u8; 32];
    b[0] = order;
    for i in 0..5 {
        b[1 + 2 * i..3 + 2 * i].copy_from_slice(&units[i].to_le_bytes());
    }
    b[11] = attr;
    b[12] = typ;
    b[13] = chk;
    for i in 0..6 {
        b[14 + 2 * i..16 + 2 * i].copy_from_slice(&units[5 + i].to_le_bytes());
    }
    b[26..28].copy_from_slice(&clus.to_le_bytes());
    for i in 0..2 {
        b[28 + 2 * i..30 + 2 * i].copy_from_slice(&units[11 + i].to_le_bytes());
    }
    b
}

pub fn mk_sfn(name: &[u8; 11], attr: u8, size: u32, stamp: [u8; 12]) -> [u8; 32] {
    let mut b = [0u8; 32];
    b[..11].copy_from_slice(name);
    b[11] = attr;
    b[12..20].copy_from_slice(&stamp[..8]);
    // first cluster high (20..22) and low (26..28) stay 0: cluster pointers are kept valid
    b[22..26].copy_from_slice(&stamp[8..12]);
    b[28..32].copy_from_slice(&size.to_le_bytes());
    b
}

/// slots of a specification-valid run for `name` + its short entry
pub fn valid_entry(name: &[u16], sfn: &[u8; 11], attr: u8) -> Vec<[u8; 32]> {
    let chk = refdec::sfn_checksum(sfn);
    let n = (name.len() + 12) / 13;
    let mut padded: Vec<u16> = name.to_vec();
    if padded.len() % 13 != 0 {
        padded.push(0);
        while padded.len() % 13 != 0 {
            padded.push(0xFFFF);
        }
    }
    let mut out = vec![];
    for i in (1..=n).rev() {
        let mut u = [0u16; 13];
        u.copy_from_slice(&padded[(i - 1) * 13..i * 13]);
        out.push(mk_lfn(i as u8 | if i == n { 0x40 } else { 0 }, chk, &u, 0x0F, 0, 0));
    }
    out.push(mk_sfn(sfn, attr, 1234, [0; 12]));
    out
}

/// what the library reported for one entry
#[derive(Clone, Debug, PartialEq, Eq)]
pub struct Seen {
    pub long: Option<Vec<u16>>,
    pub short: Vec<u8>,
    pub attrs: u8,
    pub size: u64,
    pub cdate: (u16, u16, u16),
    pub ctime: (u16, u16, u16, u16),
    pub adate: (u16, u16, u16),
    pub mdate: (u16, u16, u16),
    pub mtime: (u16, u16, u16, u16),
}

pub fn read_dir(img: &Store, path: &str) -> Guarded<Result<Vec<Seen>, String>> {
    let st = Rc::new(RefCell::new(DiskState::new(img.clone())));
    st.borrow_mut().log_mode = LogMode::Off;
    st.borrow_mut().arm(FaultPlan { budget: 2_000_000, ..Default::default() });
    let clock = crate::clock::SimClock::new(crate::clock::MIN_STAMP);
    let opts = fatfs::FsOptions::new().time_provider(clock).oem_cp_converter(SimOcc(Oem::Lossy));
    let path = path.to_string();
    guarded(move || -> Result<Vec<Seen>, String> {
        let fs = Fs::new(SimDisk::new(st), opts).map_err(|e| format!("mount: {:?}", e))?;
        let mut out = vec![];
        {
            let root = fs.root_dir();
            let dir = if path.is_empty() { root } else { root.open_dir(&path).map_err(|e| format!("open_dir: {:?}", e))? };
            for e in dir.iter() {
                let e = e.map_err(|e| format!("iter: {:?}", e))?;
                let long = e.long_file_name_as_ucs2_units().map(|u| u.to_vec());
                #[cfg(feature = "f_alloc")]
                {
                    let full = e.file_name();
                    let short = e.short_file_name();
                    if full.encode_utf16().count() > 255 * 2 || short.chars().count() > 12 {
                        return Err(format!("file_name() of {} units / short_file_name() of {} chars", full.encode_utf16().count(), short.chars().count()));
                    }
                }
                let c = e.created();
                let m = e.modified();
                let a = e.accessed();
                let _ = e.is_dir();
                let _ = e.is_file();
                out.push(Seen {
                    long,
                    short: e.short_file_name_as_bytes().to_vec(),
                    attrs: e.attributes().bits(),
                    size: e.len(),
                    cdate: (c.date.year, c.date.month, c.date.day),
                    ctime: (c.time.hour, c.time.min, c.time.sec, c.time.millis),
                    adate: (a.year, a.month, a.day),
                    mdate: (m.date.year, m.date.month, m.date.day),
                    mtime: (m.time.hour, m.time.min, m.time.sec, m.time.millis),
                });
                if out.len() > 100_000 {
                    return Err("iteration does not end".into());
                }
            }
        }
        drop(fs);
        Ok(out)
    })
}

fn dec_date(d: u16) -> (u16, u16, u16) {
    (1980 + (d >> 9), (d >> 5) & 0xF, d & 0x1F)
}

/// Inject `slots` (then an end marker if room) into base `b`, read through the library, compare.
pub fn judge(bi: usize, slots: &[[u8; 32]]) -> Result<u64, (String, String)> {
    let b = base(bi);
    let mut img = b.store.clone();
    let n = slots.len().min(b.slots.len());
    for (i, s) in slots[..n].iter().enumerate() {
        img.write_at(b.slots[i], s);
    }
    for off in &b.slots[n..] {
        img.write_at(*off, &[0u8; 32]);
    }
    let seen = match read_dir(&img, b.path) {
        Guarded::Done(Ok(v)) => v,
        Guarded::Done(Err(e)) => return Err(("iteration-failed".into(), e)),
        Guarded::Panic(m) => return Err(("panic".into(), m)),
        Guarded::Hang => return Err(("hang".into(), "device-call budget exhausted while iterating".into())),
    };
    // the dot entries of a subdirectory are not part of the injected region
    let seen: Vec<Seen> = seen.into_iter().filter(|s| !(b.path != "" && (s.short == b"." || s.short == b".."))).collect();
    for s in &seen {
        if let Some(l) = &s.long {
            if l.len() > 255 {
                return Err(("name-too-long".into(), format!("long name of {} units", l.len())));
            }
        }
    }
    // independent decode of the same slots
    let rslots: Vec<Slot> = b.slots.iter().map(|off| { let mut a = [0u8; 32]; a.copy_from_slice(&img.get(*off, 32)); Slot { off: *off, b: a } }).collect();
    let weird = rslots.iter().any(|s| s.b[0] != 0 && s.b[0] != 0xE5 && (s.b[11] & 0x0F) == 0x0F && ((s.b[11] & 0x30) != 0 || (s.b[0] & 0x20) != 0 && (s.b[11] & 0x3F) == 0x0F));
    let (entries, _labels, _end, _f) = refdec::decode_slots(&rslots);
    if weird {
        return Ok(seen.len() as u64);
    }
    if entries.len() != seen.len() {
        return Err(("entry-count-differs".into(), format!("library lists {} entries, independent decode {}", seen.len(), entries.len())));
    }
    for (e, s) in entries.iter().zip(seen.iter()) {
        if s.short != e.short_display() {
            return Err(("short-name-differs".into(), format!("library {:?}, independent decode {:?}", s.short, e.short_display())));
        }
        if s.attrs != e.attr & 0x3F || s.size != u64::from(e.size) {
            return Err(("attributes-differ".into(), format!("library attrs {:#x} size {}, raw {:#x} / {}", s.attrs, s.size, e.attr, e.size)));
        }
        let want_c = (e.ctime >> 11, (e.ctime >> 5) & 0x3F, (e.ctime & 0x1F) * 2 + u16::from(e.ctime_tenth / 100), u16::from(e.ctime_tenth % 100) * 10);
        let want_m = (e.mtime >> 11, (e.mtime >> 5) & 0x3F, (e.mtime & 0x1F) * 2, 0);
        if s.cdate != dec_date(e.cdate) || s.adate != dec_date(e.adate) || s.mdate != dec_date(e.mdate) || s.ctime != want_c || s.mtime != want_m {
            return Err(("timestamps-differ".into(), format!("library {:?}, raw words c={:#x}/{:#x}/{} a={:#x} m={:#x}/{:#x}", s, e.cdate, e.ctime, e.ctime_tenth, e.adate, e.mdate, e.mtime)));
        }
        match &e.lfn {
            LfnVerdict::Valid(n) => {
                if s.long.as_ref() != Some(n) {
                    return Err(("valid-long-name-not-returned".into(), format!("run decodes to {:?}, library returned {:?}", String::from_utf16_lossy(n), s.long.as_ref().map(|l| String::from_utf16_lossy(l)))));
                }
            }
            LfnVerdict::None | LfnVerdict::Broken(_) => {
                if let Some(l) = &s.long {
                    return Err((
                        "broken-run-yields-long-name".into(),
                        format!("{:?}: library returned long name {:?} for short entry {:?}", e.lfn, String::from_utf16_lossy(l), String::from_utf8_lossy(&e.sfn)),
                    ));
                }
            }
            LfnVerdict::Ambiguous(_) => {}
        }
    }
    Ok(seen.len() as u64)
}

fn units_of(s: &str) -> Vec<u16> {
    s.encode_utf16().collect()
}

/// (a) order / flag / checksum patterns for runs of up to 3 slots followed by a terminator
pub fn patterns(item: u64) -> RunOutcome {
    let mut o = RunOutcome::empty();
    o.evaluations = 0;
    let bi = (item % 3) as usize;
    let len = 1 + ((item / 3) % 3) as usize;
    let follower = (item / 9) % 5;
    let sfn = *b"PATTERN TXT";
    let chk = refdec::sfn_checksum(&sfn);
    let name = units_of("pattern name that is long enough for three slots")[..(len * 13 - 4)].to_vec();
    let good = valid_entry(&name, &sfn, 0x20);
    // per-slot variants: (order transform, checksum ok)
    let variants: [(u8, bool); 12] = [(0, true), (0, false), (1, true), (1, false), (2, true), (3, true), (4, true), (4, false), (5, true), (6, true), (7, true), (8, true)];
    let total = variants.len().pow(len as u32);
    for code in 0..total {
        let mut slots: Vec<[u8; 32]> = vec![];
        let mut c = code;
        for i in 0..len {
            let (ov, ck) = variants[c % variants.len()];
            c /= variants.len();
            let mut s = good[i];
            let ord = s[0];
            s[0] = match ov {
                0 => ord,
                1 => ord ^ 0x40,
                2 => ord.wrapping_add(1),
                3 => ord.wrapping_sub(1),
                4 => 0x40 | (ord & 0x1F),
                5 => ord & 0x40,
                6 => (ord & 0x40) | 21,
                7 => (ord & 0x40) | 0x1F,
                _ => 0xE5,
            };
            if !ck {
                s[13] = chk.wrapping_add(1);
            }
            slots.push(s);
        }
        match follower {
            0 => slots.push(good[len]),
            1 => {
                let mut d = good[len];
                d[0] = 0xE5;
                slots.push(d);
                slots.push(good[len]);
            }
            2 => {
                slots.push(mk_sfn(b"LABEL      ", 0x08, 0, [0; 12]));
                slots.push(good[len]);
            }
            3 => {}
            _ => {
                slots.extend(valid_entry(&units_of("second.name"), b"SECOND~1NAM", 0x20));
                slots.push(good[len]);
            }
        }
        slots.push(mk_sfn(b"SENTINEL   ", 0x20, 7, [0; 12]));
        o.evaluations += 1;
        o.distinct.push(crate::rng::hash_bytes(code as u64, &item.to_le_bytes()));
        if let Err((class, detail)) = judge(bi, &slots) {
            let v = viol("C17", &class, format!("{} pattern item {} code {}: {}", base(bi).name, item, code, detail), 0);
            o.violation = Some((v.clone(), Replay { property: "C17".into(), kind: "c17-patterns".into(), seed: item, cfg: crate::c06::dummy_cfg(), steps: vec![], violation: Some(v) }));
            return o;
        }
    }
    o.sample = Some(json!({"base": base(bi).name, "run_length": len, "follower": follower, "directories": total}));
    o
}

/// (b) every byte of each slot of a valid two-slot run + short entry through all 256 values
pub fn byte_sweep(item: u64) -> RunOutcome {
    let mut o = RunOutcome::empty();
    o.evaluations = 0;
    let bi = (item % 3) as usize;
    let pos = ((item / 3) % 96) as usize;
    let name = units_of("byte sweep name.ext");
    let good = valid_entry(&name, b"BYTESW~1EXT", 0x20);
    for v in 0..=255u8 {
        let mut slots = good.clone();
        // cluster pointer bytes of the short entry stay 0 (valid)
        if pos >= 64 && matches!(pos - 64, 20 | 21 | 26 | 27) {
            continue;
        }
        slots[pos / 32][pos % 32] = v;
        slots.push(mk_sfn(b"SENTINEL   ", 0x20, 7, [0; 12]));
        o.evaluations += 1;
        o.distinct.push(crate::rng::hash_bytes(u64::from(v), &item.to_le_bytes()));
        if let Err((class, detail)) = judge(bi, &slots) {
            let vv = viol("C17", &class, format!("{} slot {} byte {} = {:#04x}: {}", base(bi).name, pos / 32, pos % 32, v, detail), 0);
            o.violation = Some((vv.clone(), Replay { property: "C17".into(), kind: "c17-bytes".into(), seed: item, cfg: crate::c06::dummy_cfg(), steps: vec![], violation: Some(vv) }));
            return o;
        }
    }
    o.sample = Some(json!({"base": base(bi).name, "slot": pos / 32, "byte": pos % 32}));
    o
}

fn soup_slot(r: &mut Rng) -> [u8; 32] {
    let mut b = [0u8; 32];
    match r.below(10) {
        0 => r.fill(&mut b),
        1 | 2 | 3 => {
            // LFN-looking
            let mut u = [0u16; 13];
            for x in u.iter_mut() {
                *x = match r.below(6) {
                    0 => 0,
                    1 => 0xFFFF,
                    2 => 0xD800 + r.below(0x800) as u16,
                    3 => r.next_u64() as u16,
                    _ => b'a' as u16 + r.below(26) as u16,
                };
            }
            let ord = match r.below(6) {
                0 => 0x41,
                1 => 0x42,
                2 => 1,
                3 => 2,
                4 => 0x40 | r.below(32) as u8,
                _ => r.below(256) as u8,
            };
            b = mk_lfn(ord, if r.chance(1, 2) { refdec::sfn_checksum(b"SOUP    BIN") } else { r.below(256) as u8 }, &u, if r.chance(9, 10) { 0x0F } else { 0x0F | (r.below(4) as u8) << 4 }, if r.chance(9, 10) { 0 } else { r.below(256) as u8 }, if r.chance(9, 10) { 0 } else { r.below(65536) as u16 });
        }
        4 => b[0] = 0xE5,
        _ => {
            let mut n = *b"SOUP    BIN";
            if r.chance(1, 2) {
                for x in n.iter_mut() {
                    if r.chance(1, 4) {
                        *x = r.below(256) as u8;
                    }
                }
                if n[0] == 0 {
                    n[0] = b'X';
                }
            }
            let mut st = [0u8; 12];
            r.fill(&mut st);
            b = mk_sfn(&n, if r.chance(1, 2) { *r.pick(&[0x20u8, 0x10, 0x01, 0x06, 0x08, 0x28]) } else { r.below(256) as u8 }, r.next_u64() as u32, st);
        }
    }
    b
}

/// (c) seeded slot soup and (d) over-long runs
pub fn soup(seed: u64) -> RunOutcome {
    let mut r = Rng::new(seed);
    let mut o = RunOutcome::empty();
    o.evaluations = 0;
    for round in 0..40 {
        let bi = r.usize_below(3);
        let cap = base(bi).slots.len();
        let mut slots: Vec<[u8; 32]> = vec![];
        if round % 8 == 7 {
            // (d) runs of 20..=22 slots whose units are all non-padding, with a matching short entry
            let n = r.range(19, 22) as usize;
            let sfn = *b"OVERLONGBIN";
            let chk = refdec::sfn_checksum(&sfn);
            for i in (1..=n).rev() {
                let u = [b'a' as u16 + (i % 26) as u16; 13];
                slots.push(mk_lfn(i as u8 | if i == n { 0x40 } else { 0 }, chk, &u, 0x0F, 0, 0));
            }
            slots.push(mk_sfn(&sfn, 0x20, 1, [0; 12]));
        } else {
            let n = if r.chance(1, 4) { cap } else { r.range(1, cap as u64) as usize };
            for _ in 0..n {
                slots.push(soup_slot(&mut r));
            }
        }
        o.evaluations += 1;
        o.distinct.push(crate::rng::hash_bytes(seed, &(round as u64).to_le_bytes()));
        if let Err((class, detail)) = judge(bi, &slots) {
            let v = viol("C17", &class, format!("{} soup round {}: {}", base(bi).name, round, detail), 0);
            o.violation = Some((v.clone(), Replay { property: "C17".into(), kind: "c17-soup".into(), seed, cfg: crate::c06::dummy_cfg(), steps: vec![], violation: Some(v) }));
            return o;
        }
    }
    o
}

/// (e) the short entry's first byte through all 256 values (0x05 stands for 0xE5, 0xE5 for "deleted", 0x00 for "end",
/// 0x2E for dot entries), each with a run whose checksum was computed over the bytes as stored, over the bytes with
/// 0xE5 first, and over the bytes with 0x05 first: only the first is a match
pub fn first_byte(item: u64) -> RunOutcome {
    let mut o = RunOutcome::empty();
    o.evaluations = 0;
    let bi = (item % 3) as usize;
    let len = 1 + ((item / 3) % 2) as usize;
    let name = units_of("first byte sweep long name")[..(len * 13 - 5)].to_vec();
    for b0 in 0..=255u8 {
        for mode in 0..3 {
            let mut sfn = *b"XFIRSTB TXT";
            sfn[0] = b0;
            let mut alt = sfn;
            match mode {
                1 => alt[0] = 0xE5,
                2 => alt[0] = 0x05,
                _ => {}
            }
            let mut slots = valid_entry(&name, &sfn, 0x20);
            let chk = refdec::sfn_checksum(&alt);
            let n = slots.len();
            for sl in slots[..n - 1].iter_mut() {
                sl[13] = chk;
            }
            slots.push(mk_sfn(b"SENTINEL   ", 0x20, 7, [0; 12]));
            o.evaluations += 1;
            o.distinct.push(crate::rng::hash_bytes(u64::from(b0) * 3 + mode, &item.to_le_bytes()));
            if let Err((class, detail)) = judge(bi, &slots) {
                let v = viol("C17", &class, format!("{} short entry first byte {:#04x}, run checksum computed with first byte {:#04x}: {}", base(bi).name, b0, alt[0], detail), 0);
                o.violation = Some((v.clone(), Replay { property: "C17".into(), kind: "c17-first-byte".into(), seed: item, cfg: crate::c06::dummy_cfg(), steps: vec![], violation: Some(v) }));
                return o;
            }
        }
    }
    o
}

pub fn replay(kind: &str, seed: u64) -> Option<RunOutcome> {
    match kind {
        "c17-first-byte" => Some(first_byte(seed)),
        "c17-patterns" => Some(patterns(seed)),
        "c17-bytes" => Some(byte_sweep(seed)),
        "c17-soup" => Some(soup(seed)),
        _ => None,
    }
}

pub fn batches(tier: &str, seed: u64) -> Vec<Batch<'static>> {
    let n_soup = if tier == "quick" { 60_000u64 } else { 3_000_000 };
    vec![
        Batch { name: "(a) order/flag/checksum patterns, runs of 1-3 slots x 5 followers x 3 directory kinds".into(), runs: 45, f: Box::new(patterns) },
        Batch { name: "(b) every byte of a 2-slot run + short entry through 256 values x 3 directory kinds".into(), runs: 288, f: Box::new(byte_sweep) },
        Batch { name: "(e) first byte of the short entry through 256 values x 3 checksum bases (as stored / 0xE5 first / 0x05 first) x 3 directory kinds".into(), runs: 6, f: Box::new(first_byte) },
        Batch { name: "(c) seeded slot soup, (d) 19-22-slot runs of non-padding units".into(), runs: n_soup, f: Box::new(move |i| soup(crate::rng::run_seed(seed, 71, i))) },
    ]
}
