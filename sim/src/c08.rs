//! C08: any specification-valid volume made by someone else is read faithfully, and mutating it through the
//! library keeps it valid and leaves everything it was not asked to change exactly as it was.
use crate::disk::{DiskState, FaultPlan, LogMode, SimDisk};
use crate::engine::{fs_options, guarded, viol, walk_lib, Guarded, LibItem};
use crate::exec;
use crate::gen::{Gen, Profile};
use crate::props;
use crate::refgen;
use crate::rng::Rng;
use crate::runner::{Batch, RunOutcome};
use crate::types::*;
use serde_json::json;
use std::cell::RefCell;
use std::collections::BTreeSet;
use std::rc::Rc;

pub fn draw_refgen_cfg(r: &mut Rng, oracles: Oracles, benign: bool) -> RunCfg {
    let fat = *r.pick(&[12u8, 12, 16, 16, 32]);
    let bps = *r.pick(&[512u16, 512, 1024, 2048, 4096]);
    let spc = match fat {
        32 => *r.pick(&[1u8, 1, 2, 8]),
        _ => *r.pick(&[1u8, 1, 2, 4, 8, 16]),
    };
    let clusters: u32 = match fat {
        12 => r.range(30, 4000) as u32,
        16 => r.range(4100, 9000) as u32,
        _ => r.range(65_600, 70_000) as u32,
    };
    let per_sec = bps / 32;
    let vol = VolCfg {
        source: VolSource::Refgen(r.next_u64()),
        fat,
        bps,
        spc,
        fats: r.range(1, 3) as u8,
        root_entries: per_sec * (*r.pick(&[2u16, 4, 8, 16])),
        total_sectors: clusters * u32::from(spc) + 600,
        extra_sectors: if r.chance(1, 3) { r.range(1, 9) as u32 } else { 0 },
        ballast_keep: if r.chance(1, 3) { Some(r.range(2, 30) as u32) } else { None },
        ballast_mode: r.below(3) as u8,
        fsinfo_mode: if r.chance(2, 3) { 0 } else { r.range(1, 2) as u8 },
        hint: None,
        status: if r.chance(1, 5) { r.range(1, 3) as u8 } else { 0 },
        label: false,
        tail_taken: 0,
        dirty_medium: false,
    };
    RunCfg {
        vol,
        access_date: r.chance(1, 4),
        strict: r.chance(3, 4),
        oem: if r.chance(1, 2) { Oem::Cp437 } else { Oem::Lossy },
        benign: if benign { BenignCfg { eintr: r.range(0, 100) as u32, short_read: r.range(0, 200) as u32, short_write: r.range(0, 300) as u32 } } else { BenignCfg::default() },
        oracles,
        start: crate::clock::Stamp { y: 2030, mo: 6, d: 15, h: 12, mi: 0, s: 0, ms: 0 },
        dev_seed: r.next_u64(),
        ro_skip_sessions: 0,
    }
}

/// read-only traversal compared with the generator's ground truth
pub fn read_only(seed: u64) -> RunOutcome {
    let mut r = Rng::new(seed);
    let mut o = RunOutcome::empty();
    let benign = r.below(3) == 0;
    let cfg = draw_refgen_cfg(&mut r, Oracles::default(), benign);
    let VolSource::Refgen(gseed) = cfg.vol.source else { unreachable!() };
    let mkrep = |v: &Violation| Replay { property: "C08".into(), kind: "c08-read".into(), seed, cfg: cfg.clone(), steps: vec![], violation: Some(v.clone()) };
    let built = match refgen::build(&cfg.vol, gseed) {
        Ok(b) => b,
        Err(e) => {
            // the builder may decline a geometry (e.g. FAT too large): not a case
            *o.counters.entry(format!("builder_declined:{}", e.chars().take(30).collect::<String>())).or_insert(0) += 1;
            o.evaluations = 0;
            return o;
        }
    };
    {
        // harness self-check: the builder's image is clean under the independent decoder
        match crate::refdec::parse(&built.store) {
            Ok(p) if p.findings.is_empty() => {}
            Ok(p) => {
                let v = viol("HARNESS", "refgen-not-clean", format!("{:?}", p.findings[0]), 0);
                o.violation = Some((v.clone(), mkrep(&v)));
                return o;
            }
            Err(e) => {
                let v = viol("HARNESS", "refgen-unparseable", e, 0);
                o.violation = Some((v.clone(), mkrep(&v)));
                return o;
            }
        }
    }
    for f in &built.features {
        *o.counters.entry(format!("feature:{}", f)).or_insert(0) += 1;
    }
    *o.counters.entry(format!("volumes_fat{}", cfg.vol.fat)).or_insert(0) += 1;
    let occ = SimOcc(cfg.oem);
    let st = Rc::new(RefCell::new(DiskState::new(built.store.clone())));
    st.borrow_mut().log_mode = LogMode::Meta;
    st.borrow_mut().benign_rng = Rng::new(cfg.dev_seed);
    st.borrow_mut().arm(FaultPlan {
        budget: 5_000_000,
        benign: crate::disk::Benign { eintr: cfg.benign.eintr, short_read: cfg.benign.short_read, short_write: cfg.benign.short_write },
        ..Default::default()
    });
    let clock = crate::clock::SimClock::new(cfg.start);
    let mut c2 = cfg.clone();
    c2.access_date = false;
    let opts = fs_options(&c2, &clock);
    let st2 = st.clone();
    let res = guarded(move || -> Result<(Vec<LibItem>, Option<[u8; 11]>, u32, u32), String> {
        let fs = Fs::new(SimDisk::new(st2), opts).map_err(|e| format!("mount: {:?}", e))?;
        let mut items = vec![];
        walk_lib(&fs.root_dir(), &[], &BTreeSet::new(), &mut items, 0).map_err(|e| format!("walk: {:?}", e))?;
        let label = fs.read_volume_label_from_root_dir_as_bytes().map_err(|e| format!("label: {:?}", e))?;
        let stt = fs.stats().map_err(|e| format!("stats: {:?}", e))?;
        fs.unmount().map_err(|e| format!("unmount: {:?}", e))?;
        Ok((items, label, stt.free_clusters(), stt.total_clusters()))
    });
    let (mut items, label, free, total) = match res {
        Guarded::Done(Ok(x)) => x,
        Guarded::Done(Err(e)) => {
            let v = viol("C08", "foreign-volume-not-readable", e, 0);
            o.violation = Some((v.clone(), mkrep(&v)));
            return o;
        }
        Guarded::Panic(m) => {
            let v = viol("C08", "panic", m, 0);
            o.violation = Some((v.clone(), mkrep(&v)));
            return o;
        }
        Guarded::Hang => {
            let v = viol("C08", "hang", "reading a foreign volume".into(), 0);
            o.violation = Some((v.clone(), mkrep(&v)));
            return o;
        }
    };
    items.sort();
    let mut want: Vec<(Vec<Vec<u16>>, &refgen::Truth)> = built.truth.iter().map(|t| (t.display_path(occ), t)).collect();
    want.sort_by(|a, b| a.0.cmp(&b.0));
    let fail = |class: &str, detail: String| {
        let v = viol("C08", class, detail, 0);
        (v.clone(), mkrep(&v))
    };
    if want.len() != items.len() || want.iter().zip(items.iter()).any(|(a, b)| a.0 != b.path) {
        let a: Vec<String> = want.iter().map(|x| crate::refdec::path_str(&x.0)).collect();
        let b: Vec<String> = items.iter().map(|x| crate::refdec::path_str(&x.path)).collect();
        o.violation = Some(fail("listing-differs", format!("ground truth only: {:?}; library only: {:?}", a.iter().filter(|x| !b.contains(x)).collect::<Vec<_>>(), b.iter().filter(|x| !a.contains(x)).collect::<Vec<_>>())));
        return o;
    }
    let dd = |d: u16| (1980 + (d >> 9), (d >> 5) & 0xF, d & 0x1F);
    for ((p, t), it) in want.iter().zip(items.iter()) {
        let name = crate::refdec::path_str(p);
        if it.is_dir != t.is_dir || it.attrs != t.attr & 0x3F {
            o.violation = Some(fail("attributes-differ", format!("{}: library dir={} attrs={:#x}, truth dir={} attrs={:#x}", name, it.is_dir, it.attrs, t.is_dir, t.attr)));
            return o;
        }
        if !t.is_dir {
            if it.size != t.content.len() as u64 || it.content.as_deref() != Some(&t.content[..]) {
                o.violation = Some(fail("content-differs", format!("{}: {} bytes read, truth {}", name, it.content.as_ref().map_or(0, |c| c.len()), t.content.len())));
                return o;
            }
        }
        let c = it.created;
        let m = it.modified;
        let want_c = (dd(t.cdate), (t.ctime >> 11, (t.ctime >> 5) & 0x3F, (t.ctime & 0x1F) * 2 + u16::from(t.ctime_tenth / 100), u16::from(t.ctime_tenth % 100) * 10));
        let want_m = (dd(t.mdate), (t.mtime >> 11, (t.mtime >> 5) & 0x3F, (t.mtime & 0x1F) * 2, 0u16));
        if ((c.y, c.mo, c.d), (c.h, c.mi, c.s, c.ms)) != want_c || ((m.y, m.mo, m.d), (m.h, m.mi, m.s, m.ms)) != want_m || it.accessed != dd(t.adate) {
            o.violation = Some(fail("timestamps-differ", format!("{}: library {:?}/{:?}/{:?}, truth {:?}/{:?}/{:?}", name, c, m, it.accessed, want_c, want_m, dd(t.adate))));
            return o;
        }
        let (_, sfn, _) = t.path.last().unwrap();
        if it.short != crate::refdec::short_display(sfn, 0) {
            o.violation = Some(fail("short-name-differs", format!("{}: library {:?}, truth {:?}", name, it.short, crate::refdec::short_display(sfn, 0))));
            return o;
        }
    }
    if label != built.label {
        o.violation = Some(fail("label-differs", format!("library {:?}, truth {:?}", label, built.label)));
        return o;
    }
    let p = crate::refdec::parse(&built.store).unwrap();
    if total != p.geo.n_clusters || (cfg.vol.fsinfo_mode != 2 || cfg.vol.fat != 32) && (cfg.vol.fat != 32 || cfg.vol.fsinfo_mode == 1 || cfg.vol.status & 1 != 0) && free != p.free {
        o.violation = Some(fail("stats-differ", format!("library free {} total {}, raw {} / {}", free, total, p.free, p.geo.n_clusters)));
        return o;
    }
    // a read-only visit must not have changed a byte (stats on a FAT32 volume without a usable count excepted)
    let diff = st.borrow().store.diff(&built.store);
    let fo = u64::from(p.geo.fsinfo_sector) * u64::from(p.geo.bps);
    if diff.iter().any(|(off, len)| !(cfg.vol.fat == 32 && *off >= fo && off + len <= fo + 512)) {
        o.violation = Some(fail("read-only-visit-changed-image", format!("changed ranges {:x?}", diff)));
        return o;
    }
    o.distinct.push(built.store.fingerprint());
    o.evaluations = built.truth.len().max(1) as u64;
    o.stats.fired = st.borrow().fired.clone();
    o.sample = Some(json!({"seed": seed, "config": props::cfg_summary(&cfg), "objects": built.truth.len(), "features": built.features}));
    o
}

/// C01/C02-style workload on top of a builder-made volume, with the raw-diff oracle
pub fn mutate(seed: u64, benign: bool) -> RunOutcome {
    let mut r = Rng::new(seed);
    let oracles = Oracles { outcome: true, raw_tree: true, fsck: true, raw_diff: true, fat_copies: true, file_model: true, free_count: true, ..Default::default() };
    let cfg = draw_refgen_cfg(&mut r, oracles, benign);
    let VolSource::Refgen(gseed) = cfg.vol.source else { unreachable!() };
    let mut o = RunOutcome::empty();
    if let Err(e) = refgen::build(&cfg.vol, gseed) {
        *o.counters.entry(format!("builder_declined:{}", e.chars().take(30).collect::<String>())).or_insert(0) += 1;
        o.evaluations = 0;
        return o;
    }
    let mut prof = Profile::mixed();
    prof.steps = r.range(5, 30) as usize;
    prof.clients = r.range(1, 3) as u8;
    prof.max_write = 30_000;
    prof.w_remount = 3;
    let mut g = Gen::new(r.next_u64(), prof);
    let res = exec::run(cfg.clone(), "C08", &mut g, 120);
    o.evaluations = res.stats.steps.max(1);
    o.stats = res.stats;
    o.sample = Some(json!({"seed": seed, "config": props::cfg_summary(&cfg), "history": res.trace.iter().take(10).map(|s| format!("{:?}", s.op)).collect::<Vec<_>>()}));
    if let Some(mut v) = res.violation {
        if v.property != "HARNESS" {
            v.detail = format!("[{} {}] {}", v.property, v.class, v.detail);
            v.property = "C08".into();
        }
        let rep = Replay { property: "C08".into(), kind: "engine".into(), seed, cfg, steps: res.trace, violation: Some(v.clone()) };
        o.violation = Some((v, rep));
    }
    o
}

pub fn replay(kind: &str, seed: u64) -> Option<RunOutcome> {
    match kind {
        "c08-read" => Some(read_only(seed)),
        _ => None,
    }
}

pub fn batches(tier: &str, seed: u64) -> Vec<Batch<'static>> {
    let (n1, n2, n3) = if tier == "quick" { (12_000u64, 12_000u64, 4000u64) } else { (1_000_000, 1_000_000, 300_000) };
    vec![
        Batch { name: "read-only traversal of builder-made volumes vs ground truth".into(), runs: n1, f: Box::new(move |i| read_only(crate::rng::run_seed(seed, 81, i))) },
        Batch { name: "mutating sessions on builder-made volumes (raw-diff, fsck, model)".into(), runs: n2, f: Box::new(move |i| mutate(crate::rng::run_seed(seed, 82, i), false)) },
        Batch { name: "mutating sessions on builder-made volumes under benign device faults".into(), runs: n3, f: Box::new(move |i| mutate(crate::rng::run_seed(seed, 83, i), true)) },
    ]
}
