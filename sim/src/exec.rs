//! Step execution: one API call against the library and the model, then the oracles.
use crate::clock::{SimClock, Stamp};
use crate::disk::{Benign, DiskState, FaultPlan, LogMode, SimDisk, Store};
use crate::engine::*;
use crate::model::{self, Model, NodeId, E, ROOT};
use crate::oracle::{self, PostCtx};
use crate::refdec::{self, Parsed};
use crate::types::*;
use fatfs::{Read, Seek, SeekFrom, Write};
use std::cell::RefCell;
use std::collections::BTreeSet;
use std::rc::Rc;

pub struct RunResult {
    pub crash: CrashLog,
    pub step_calls: Vec<u64>,
    pub violation: Option<Violation>,
    pub trace: Vec<Step>,
    pub stats: RunStats,
    pub final_fingerprint: u64,
    pub obs_hash: u64,
}

pub fn build_store(cfg: &RunCfg) -> Result<Store, String> {
    build_inputs(cfg).map(|x| x.0)
}

pub fn build_inputs(cfg: &RunCfg) -> Result<(Store, Vec<crate::refgen::Truth>), String> {
    let mut rng = crate::rng::Rng::new(cfg.dev_seed ^ 0xBA11A57);
    match cfg.vol.source {
        VolSource::Format => {
            let mut s = crate::vol::format_store(&cfg.vol)?;
            crate::vol::dress(&mut s, &cfg.vol, &mut rng)?;
            Ok((s, vec![]))
        }
        VolSource::Refgen(seed) => {
            let built = crate::refgen::build(&cfg.vol, seed)?;
            // the builder's own output must be clean under the independent checker (harness self-check)
            let p = refdec::parse(&built.store)?;
            if let Some(f) = p.findings.first() {
                return Err(format!("refgen image not fsck-clean: {} {}", f.kind, f.detail));
            }
            let mut s = built.store;
            if let Some(keep) = cfg.vol.ballast_keep {
                let mut v2 = cfg.vol.clone();
                v2.ballast_keep = Some(keep);
                crate::vol::ballast_only(&mut s, &v2, &mut rng)?;
            }
            Ok((s, built.truth))
        }
    }
}

impl World {
    pub fn new(cfg: RunCfg, store: Store, prop: &str) -> Result<World, String> {
        let geo = refdec::geo(&store)?;
        refdec::set_oem(cfg.oem == Oem::Cp437);
        let clock = SimClock::new(cfg.start);
        clock.set(cfg.start);
        let mut ds = DiskState::new(store);
        ds.benign_rng = crate::rng::Rng::new(cfg.dev_seed);
        let unicode = cfg!(feature = "f_unicode");
        Ok(World {
            model: Model::new(unicode, cfg.start),
            cfg,
            disk: Rc::new(RefCell::new(ds)),
            clock,
            stats: RunStats::default(),
            step_no: 0,
            last_parsed: None,
            mount_status: 0,
            structural: false,
            mount_fat_head: vec![],
            mount_fat_pad: vec![],
            count_known: false,
            mounted_dirty: false,
            session_writes: 0,
            fsinfo_writes_only: true,
            stats_called_unusable: false,
            faulted: false,
            faulted_in_rename: false,
            step_injected: false,
            pending_reclaim: None,
            stop: false,
            unmount_failed: false,
            geo,
            prop: prop.to_string(),
            obs: 0x0B5,
            step_calls: vec![],
            crash: CrashLog::default(),
        })
    }

    pub fn parsed(&mut self) -> Result<Rc<Parsed>, Violation> {
        if let Some(p) = &self.last_parsed {
            return Ok(p.clone());
        }
        let r = refdec::parse(&self.disk.borrow().store);
        match r {
            Ok(p) => {
                let p = Rc::new(p);
                self.last_parsed = Some(p.clone());
                Ok(p)
            }
            Err(e) => Err(viol("C03", "image-unparseable", e, self.step_no)),
        }
    }

    pub fn observe(&mut self, s: &str) {
        self.obs = crate::rng::hash_bytes(self.obs, s.as_bytes());
    }

    fn plan_for(&self, step: &Step) -> FaultPlan {
        FaultPlan {
            hard_at: step.hard_at,
            sticky: step.sticky,
            benign: Benign {
                eintr: self.cfg.benign.eintr,
                short_read: self.cfg.benign.short_read,
                short_write: self.cfg.benign.short_write,
            },
            // a recount of the free clusters costs two device calls per cluster: that is work, not a hang
            budget: 2_000_000 + 5 * u64::from(self.geo.n_clusters),
            fail_from: None,
        }
    }
}

pub fn view(s: &Session) -> HandleView {
    HandleView {
        dirs: s.dirs.iter().map(|d| d.as_ref().map(|h| h.node)).collect(),
        files: s.files.iter().map(|f| f.as_ref().map(|h| (h.node, h.pos))).collect(),
    }
}

/// Build the volume described by `cfg`, run steps from `src` until it is exhausted or a violation is found.
pub fn run(cfg: RunCfg, prop: &str, src: &mut dyn StepSource, max_steps: usize) -> RunResult {
    let (store, truth) = match build_inputs(&cfg) {
        Ok(s) => s,
        Err(e) => {
            return RunResult {
                crash: CrashLog::default(),
                step_calls: vec![],
                violation: Some(viol("HARNESS", "volume-build-failed", e, 0)),
                trace: vec![],
                stats: RunStats::default(),
                final_fingerprint: 0,
                obs_hash: 0,
            }
        }
    };
    run_on_with(cfg, store, truth, prop, src, max_steps)
}

pub fn run_on(cfg: RunCfg, store: Store, prop: &str, src: &mut dyn StepSource, max_steps: usize) -> RunResult {
    run_on_with(cfg, store, vec![], prop, src, max_steps)
}

pub fn run_on_with(cfg: RunCfg, store: Store, truth: Vec<crate::refgen::Truth>, prop: &str, src: &mut dyn StepSource, max_steps: usize) -> RunResult {
    let mut w = match World::new(cfg, store, prop) {
        Ok(mut w) => {
            if !truth.is_empty() {
                let occ = SimOcc(w.cfg.oem);
                w.model.load_truth(&truth, occ);
            }
            w
        }
        Err(e) => {
            return RunResult {
                crash: CrashLog::default(),
                step_calls: vec![],
                violation: Some(viol("HARNESS", "volume-not-coherent", e, 0)),
                trace: vec![],
                stats: RunStats::default(),
                final_fingerprint: 0,
                obs_hash: 0,
            }
        }
    };
    let mut trace: Vec<Step> = Vec::new();
    let mut violation = None;
    loop {
        match session(&mut w, src, &mut trace, max_steps) {
            Ok(SessionEnd::Remount(_)) => continue,
            Ok(SessionEnd::Finished) => break,
            Err(v) => {
                violation = Some(v);
                break;
            }
        }
    }
    w.stats.fired = w.disk.borrow().fired.clone();
    w.stats.clock_span_s = w.clock.span_s();
    w.stats.device_calls = w.disk.borrow().total_calls;
    w.crash.final_epoch = w.disk.borrow().epoch;
    let fp = w.disk.borrow().store.fingerprint();
    RunResult { crash: std::mem::take(&mut w.crash), step_calls: w.step_calls.clone(), violation, trace, stats: w.stats.clone(), final_fingerprint: fp, obs_hash: w.obs }
}

fn session(w: &mut World, src: &mut dyn StepSource, trace: &mut Vec<Step>, max_steps: usize) -> Result<SessionEnd, Violation> {
    w.stats.sessions += 1;
    let o = w.cfg.oracles.clone();
    let full = o.free_count || o.crash_log || o.dirty_bit || o.write_audit || o.raw_diff || o.fat_copies || o.stamps || o.fail_atomic;
    {
        let mut d = w.disk.borrow_mut();
        d.log_mode = if full { LogMode::Full } else { LogMode::Meta };
        d.arm(FaultPlan { budget: 2_000_000, ..FaultPlan::default() });
        let g = &w.geo;
        w.mount_status = d.store.u8_at(g.status_off);
        // entries 0 and 1 of every copy, and the padding entries beyond N+1 (bounded to one sector's worth)
        let head_len = (2 * g.fat_bits as usize + 7) / 8;
        w.mount_fat_head = (0..g.nfats).flat_map(|c| d.store.get(g.fat_copy_off(c), head_len)).collect();
    }
    if w.cfg.oracles.crash_log && w.crash.start.is_none() {
        w.crash.start = Some(w.disk.borrow().store.clone());
    }
    w.mounted_dirty = w.mount_status & 1 != 0;
    w.structural = false;
    w.unmount_failed = false;
    w.session_writes = 0;
    w.fsinfo_writes_only = true;
    w.stats_called_unusable = false;
    let opts = fs_options(&w.cfg, &w.clock);
    let disk = SimDisk::new(w.disk.clone());
    let fs = match guarded(|| Fs::new(disk, opts)) {
        Guarded::Done(Ok(fs)) => fs,
        Guarded::Done(Err(e)) => return Err(viol(&w.prop, "mount-failed", format!("{:?}", e), w.step_no)),
        Guarded::Panic(m) => return Err(viol(&w.prop, "mount-panicked", m, w.step_no)),
        Guarded::Hang => return Err(viol(&w.prop, "mount-hang", String::new(), w.step_no)),
    };
    // FS-info count usable in this session?
    if w.geo.fat_bits == 32 {
        let d = w.disk.borrow();
        let fo = u64::from(w.geo.fsinfo_sector) * u64::from(w.geo.bps);
        let cnt = d.store.u32_at(fo + 488);
        w.count_known = !w.mounted_dirty && cnt != 0xFFFF_FFFF && cnt <= w.geo.n_clusters;
    } else {
        w.count_known = false;
    }
    {
        let d = w.disk.borrow();
        let wrote = d.writes.len();
        if wrote > 0 && w.cfg.oracles.read_only && w.stats.sessions > u64::from(w.cfg.ro_skip_sessions) {
            return Err(viol("C13", "write-during-mount", format!("{} write(s)", wrote), w.step_no));
        }
    }
    let end;
    {
        let mut s = Session { fs: &fs, dirs: vec![Some(DirH { d: fs.root_dir(), node: ROOT, via: None })], files: vec![] };
        loop {
            if trace.len() >= max_steps {
                end = SessionEnd::Finished;
                break;
            }
            let Some(step) = src.next(w, &view(&s)) else {
                end = SessionEnd::Finished;
                break;
            };
            trace.push(step.clone());
            w.step_no = trace.len() - 1;
            w.stats.steps += 1;
            w.stats.interleave_hash = crate::rng::hash_bytes(w.stats.interleave_hash, &[step.c]);
            if s.files.iter().filter(|f| f.is_some()).count() + s.dirs.iter().filter(|d| d.is_some()).count() > 2 {
                w.stats.multi_handle_steps += 1;
            }
            if let Op::Remount { how } = step.op {
                end = SessionEnd::Remount(how);
                break;
            }
            exec_step(w, &mut s, &step)?;
            if w.stop || (w.faulted && !w.cfg.oracles.crash_log && !w.cfg.oracles.fault_resilient) {
                // after a hard fault: one relaxed structural check, then the run ends
                end = SessionEnd::Finished;
                break;
            }
        }
        // close all handles (destructor context)
        w.disk.borrow_mut().arm(FaultPlan { budget: 2_000_000, ..FaultPlan::default() });
        match guarded(|| {
            s.files.clear();
            s.dirs.clear();
        }) {
            Guarded::Done(()) => {}
            Guarded::Panic(m) => return Err(viol(&w.prop, "panic-in-handle-drop", m, w.step_no)),
            Guarded::Hang => return Err(viol(&w.prop, "hang-in-handle-drop", String::new(), w.step_no)),
        }
        oracle::account_writes(w, "handle-drop")?;
    }
    let how = match end {
        SessionEnd::Remount(h) => h,
        SessionEnd::Finished => (w.step_no % 2) as u8,
    };
    w.last_parsed = None;
    let pre_end = w.disk.borrow().store.clone();
    let uh = crate::rng::hash_bytes(w.cfg.dev_seed ^ 0x0F0F, &w.stats.sessions.to_le_bytes());
    let unmount_fault = how == 0 && !w.faulted && uh % 100 < u64::from(o.unmount_faults);
    w.disk.borrow_mut().arm(FaultPlan { budget: 2_000_000, hard_at: if unmount_fault { Some(1 + (uh / 100) % 14) } else { None }, ..FaultPlan::default() });
    match how {
        0 => match guarded(|| fs.unmount()) {
            Guarded::Done(Ok(())) => {}
            Guarded::Done(Err(e)) => {
                if unmount_fault && !w.disk.borrow().injected.is_empty() {
                    // the injected error came back; `unmount(self)` has dropped the file system, whose destructor ran the
                    // same steps again on a device that works: the volume must be exactly as after a successful unmount
                    w.stats.unmount_faults += 1;
                } else if !w.faulted {
                    return Err(viol(&w.prop, "unmount-failed", format!("{:?}", e), w.step_no));
                } else {
                    w.unmount_failed = true;
                }
            }
            Guarded::Panic(m) => return Err(viol(&w.prop, "unmount-panicked", m, w.step_no)),
            Guarded::Hang => return Err(viol(&w.prop, "unmount-hang", String::new(), w.step_no)),
        },
        1 => match guarded(|| drop(fs)) {
            Guarded::Done(()) => {}
            Guarded::Panic(m) => return Err(viol(&w.prop, "fs-drop-panicked", m, w.step_no)),
            Guarded::Hang => return Err(viol(&w.prop, "fs-drop-hang", String::new(), w.step_no)),
        },
        _ => {
            // abandonment: whatever the destructor would write never reaches the device
            let _ = guarded(|| drop(fs));
            w.disk.borrow_mut().store = pre_end.clone();
            if w.cfg.oracles.crash_log {
                // ... and is not part of the device's write history either
                w.disk.borrow_mut().writes.clear();
            }
        }
    }
    if o.free_count && !w.faulted && how < 2 && w.geo.fat_bits == 32 && w.geo.n_clusters <= 2_000_000 && crate::rng::hash_bytes(w.cfg.dev_seed, &w.stats.sessions.to_le_bytes()) % 5 == 0 {
        let writes = w.disk.borrow().writes.clone();
        oracle::crash_count_check(w, &pre_end, &writes, "unmount / drop")?;
    }
    oracle::account_writes(w, "unmount")?;
    oracle::after_session(w, how, &pre_end)?;
    match end {
        SessionEnd::Remount(h) => Ok(SessionEnd::Remount(h)),
        SessionEnd::Finished => Ok(SessionEnd::Finished),
    }
}

fn dir_of<'s, 'a>(s: &'s Session<'a>, slot: u8) -> Option<&'s DirH<'a>> {
    s.dirs.get(slot as usize).and_then(|d| d.as_ref())
}

/// Drop every handle (File or Dir) that refers to `node` -- the library documents them as forbidden across
/// remove/rename of that object.
fn drop_handles_to(s: &mut Session, node: NodeId) {
    for f in s.files.iter_mut() {
        if f.as_ref().map_or(false, |h| h.node == node) {
            *f = None;
        }
    }
    for (i, d) in s.dirs.iter_mut().enumerate() {
        if i != 0 && d.as_ref().map_or(false, |h| h.node == node || h.via == Some(node)) {
            *d = None;
        }
    }
}

fn put<T>(v: &mut Vec<Option<T>>, slot: u8, x: T) {
    let i = slot as usize;
    while v.len() <= i {
        v.push(None);
    }
    v[i] = Some(x);
}

fn lfn_slots(name: &str) -> usize {
    (name.encode_utf16().count() + 12) / 13 + 1
}

/// clusters a creation of `name` in directory node `dirn` needs for directory growth; None = fixed root overflow
fn growth_need(w: &World, before: &Parsed, dirn: NodeId, name: &str) -> Option<u32> {
    let path: Vec<Vec<u16>> = w.model.path_of(dirn).iter().map(|s| s.encode_utf16().collect()).collect();
    let oi = before.find(&path)?;
    let di = before.dir_of(oi)?;
    let over = di.overflow_for(lfn_slots(name));
    if over == 0 {
        return Some(0);
    }
    if di.is_root && before.geo.fat_bits != 32 {
        return None;
    }
    let per = (before.geo.cluster_bytes / 32) as usize;
    Some(((over + per - 1) / per) as u32)
}

/// is a NotEnoughSpace answer justified for a creation needing `own` clusters plus directory growth?
fn nospace_justified(w: &mut World, before: &Parsed, dirn: NodeId, name: &str, own: u32) -> bool {
    match growth_need(w, before, dirn, name) {
        None => {
            w.stats.root_full_seen += 1;
            true
        }
        Some(g) => before.free < g + own,
    }
}

pub struct Outcome {
    pub res: Result<(), E>,
    /// nodes whose on-disk representation the op may touch (targets and the directories on its paths)
    pub touch: Vec<NodeId>,
    /// their paths as they were before the call
    pub touch_paths: Vec<Vec<Vec<u16>>>,
    pub is_file_op: bool,
    pub mutating: bool,
    /// file the (file-handle) op acted on
    pub file_node: Option<NodeId>,
    /// object removed / renamed by the op
    pub victim: Option<NodeId>,
    pub victim_path: Option<Vec<Vec<u16>>>,
    /// paths (before the call) of open files with pending changes
    pub flux_paths: Vec<Vec<Vec<u16>>>,
}

fn ancestors(m: &Model, n: NodeId, out: &mut Outcome) {
    let mut cur = Some(n);
    while let Some(c) = cur {
        if !out.touch.contains(&c) {
            out.touch.push(c);
            out.touch_paths.push(m.path_of(c).iter().map(|s| s.encode_utf16().collect()).collect());
        }
        cur = m.nodes[c].parent;
    }
}

fn base_touch(s: &Session, m: &Model, slot: u8, out: &mut Outcome) {
    if let Some(Some(h)) = s.dirs.get(slot as usize) {
        if let Some(v) = h.via {
            ancestors(m, v, out);
        }
    }
}

fn path_touch(m: &Model, base: NodeId, path: &str, out: &mut Outcome) {
    ancestors(m, base, out);
    let mut cur = base;
    for c in model::components(path) {
        match m.child(cur, c) {
            Some(n) => {
                ancestors(m, n, out);
                cur = n;
            }
            None => break,
        }
    }
}

fn check_outcome(
    w: &mut World,
    what: &str,
    got: &Result<(), E>,
    errs: &[E],
    nospace_ok: bool,
    any_user_error_ok: bool,
) -> Result<(), Violation> {
    if !w.cfg.oracles.outcome {
        return Ok(());
    }
    match got {
        Ok(()) => {
            if !errs.is_empty() || any_user_error_ok {
                return Err(viol(
                    "C01",
                    "unexpected-success",
                    format!("{}: returned Ok, model expects one of {:?}", what, errs),
                    w.step_no,
                ));
            }
        }
        Err(E::Io(_)) | Err(E::IoOther(_)) => {}
        Err(e) => {
            if errs.contains(e) {
                return Ok(());
            }
            if any_user_error_ok {
                return Ok(());
            }
            if *e == E::NoSpace && nospace_ok {
                w.stats.nospace_seen += 1;
                return Ok(());
            }
            if *e == E::NoSpace {
                return Err(viol(
                    "C05",
                    "nospace-with-space-left",
                    format!("{}: NotEnoughSpace although the raw image has room", what),
                    w.step_no,
                ));
            }
            return Err(viol(
                "C01",
                "wrong-outcome",
                format!("{}: returned {:?}, model expects {}", what, e, if errs.is_empty() { "Ok".to_string() } else { format!("{:?}", errs) }),
                w.step_no,
            ));
        }
    }
    Ok(())
}

/// refresh the alias of `node` from the raw image (the model needs it for lookups; C16 checks it separately)
fn refresh_alias(w: &mut World, node: NodeId) -> Result<(), Violation> {
    let p = w.parsed()?;
    let path: Vec<Vec<u16>> = w.model.path_of(node).iter().map(|s| s.encode_utf16().collect()).collect();
    if let Some(oi) = p.find(&path) {
        if let Some(e) = &p.objs[oi].entry {
            let occ = SimOcc(w.cfg.oem);
            let s: String = e.short_display().iter().map(|b| occ.dec(*b)).collect();
            w.model.nodes[node].alias = Some(s);
        }
    }
    Ok(())
}

pub fn exec_step(w: &mut World, s: &mut Session, step: &Step) -> Result<(), Violation> {
    let o = w.cfg.oracles.clone();
    // "." / ".." as the final component of a mutating call is path syntax, not a name: never exercised
    let dot_leaf = |p: &str| matches!(*model::components(p).last().unwrap(), "." | "..");
    match &step.op {
        Op::CreateFile { path, .. } | Op::CreateDir { path, .. } | Op::Remove { path, .. } if dot_leaf(path) => return Ok(()),
        Op::Rename { spath, dpath, .. } if dot_leaf(spath) || dot_leaf(dpath) => return Ok(()),
        _ => {}
    }
    // handles to an object that is about to be removed / renamed are documented as forbidden: drop them first,
    // as a separate phase, so that their write-back is not attributed to the call itself
    let victim = match &step.op {
        Op::Remove { base, path } => dir_of(s, *base).and_then(|b| w.model.resolve(b.node, path).ok()),
        Op::Rename { sbase, spath, .. } => dir_of(s, *sbase).and_then(|b| w.model.resolve(b.node, spath).ok()),
        _ => None,
    };
    if let Some(n) = victim {
        let has = s.files.iter().flatten().any(|h| h.node == n) || s.dirs.iter().enumerate().any(|(i, d)| i != 0 && d.as_ref().map_or(false, |h| h.node == n || h.via == Some(n)));
        if has {
            w.parsed()?;
            w.disk.borrow_mut().arm(FaultPlan { budget: 2_000_000, ..FaultPlan::default() });
            match guarded(|| drop_handles_to(s, n)) {
                Guarded::Done(()) => {}
                Guarded::Panic(m) => return Err(viol(&w.prop.clone(), "panic", format!("dropping handles: {}", m), w.step_no)),
                Guarded::Hang => return Err(viol(&w.prop.clone(), "hang", "dropping handles".into(), w.step_no)),
            }
            oracle::account_writes(w, "handle-drop")?;
        }
    }
    let need_before = o.free_count || o.fail_atomic || o.write_audit || o.raw_diff || o.fat_copies || o.stamps || o.dirty_bit;
    let before_store = if need_before { Some(w.disk.borrow().store.clone()) } else { None };
    let before = w.parsed()?;
    let plan = w.plan_for(step);
    w.disk.borrow_mut().arm(plan);
    let now = w.clock.get();
    let step_no = w.step_no;
    let prop = w.prop.clone();
    let mut out = Outcome { res: Ok(()), touch: vec![], touch_paths: vec![], is_file_op: false, mutating: false, file_node: None, victim, victim_path: victim.map(|n| w.model.path_of(n).iter().map(|x| x.encode_utf16().collect()).collect()), flux_paths: vec![] };
    out.flux_paths = s.files.iter().flatten().filter(|h| h.dirty).map(|h| w.model.path_of(h.node).iter().map(|x| x.encode_utf16().collect()).collect()).collect();
    let mut flux_file: Option<NodeId> = None;

    macro_rules! lib {
        ($e:expr) => {
            match guarded(|| $e) {
                Guarded::Done(v) => v,
                Guarded::Panic(m) => return Err(viol(&prop, "panic", format!("{:?}: {}", step.op, m), step_no)),
                Guarded::Hang => return Err(viol(&prop, "hang", format!("{:?}: device-call budget exhausted", step.op), step_no)),
            }
        };
    }

    match &step.op {
        Op::CreateFile { base, path, keep } | Op::CreateDir { base, path, keep } => {
            let is_dir = matches!(step.op, Op::CreateDir { .. });
            let Some(bh) = dir_of(s, *base) else { return Ok(()) };
            let bnode = bh.node;
            out.mutating = true;
            base_touch(s, &w.model, *base, &mut out);
            path_touch(&w.model, bnode, path, &mut out);
            let mut errs = vec![];
            let mut parent = None;
            let mut existing = None;
            match w.model.walk_parent(bnode, path) {
                Err(e) => errs.push(e),
                Ok((p, leaf)) => {
                    parent = Some((p, leaf.to_string()));
                    match w.model.child(p, leaf) {
                        Some(n) => {
                            existing = Some(n);
                            if w.model.nodes[n].is_dir != is_dir {
                                errs.push(E::InvalidInput);
                            }
                        }
                        None => errs.extend(model::name_errors(leaf)),
                    }
                }
            }
            // a second File handle to an already open file is forbidden: skip such steps
            if !is_dir {
                if let Some(n) = existing {
                    if s.files.iter().flatten().any(|h| h.node == n) {
                        w.disk.borrow_mut().disarm();
                        return Ok(());
                    }
                }
            }
            let will_create = errs.is_empty() && existing.is_none();
            let nospace_ok = will_create
                && parent.as_ref().map_or(false, |(p, leaf)| nospace_justified(w, &before, *p, leaf, u32::from(is_dir)));
            let d = &dir_of(s, *base).unwrap().d;
            if is_dir {
                let r = lib!(d.create_dir(path));
                out.res = r.as_ref().map(|_| ()).map_err(map_err);
                check_outcome(w, &format!("create_dir({:?})", path), &out.res, &errs, nospace_ok, false)?;
                if let Ok(dh) = r {
                    let node = match existing {
                        Some(n) => n,
                        None => {
                            // the library succeeded where the model cannot follow (only possible when the outcome oracle is
                            // not part of this check): stop this run, it is not this property's business
                            let Some((p, leaf)) = parent.clone() else {
                                w.stats.model_diverged += 1;
                                w.faulted = true;
                                w.stop = true;
                                return Ok(());
                            };
                            let n = w.model.add(p, &leaf, true, now);
                            out.touch.push(n);
                            n
                        }
                    };
                    w.last_parsed = None;
                    if existing.is_none() {
                        refresh_alias(w, node)?;
                    }
                    if let Some(k) = keep {
                        put(&mut s.dirs, *k, DirH { d: dh, node, via: None });
                    }
                }
            } else {
                let r = lib!(d.create_file(path));
                out.res = r.as_ref().map(|_| ()).map_err(map_err);
                check_outcome(w, &format!("create_file({:?})", path), &out.res, &errs, nospace_ok, false)?;
                if let Ok(fh) = r {
                    let node = match existing {
                        Some(n) => n,
                        None => {
                            let Some((p, leaf)) = parent.clone() else {
                                w.stats.model_diverged += 1;
                                w.faulted = true;
                                w.stop = true;
                                return Ok(());
                            };
                            let n = w.model.add(p, &leaf, false, now);
                            out.touch.push(n);
                            n
                        }
                    };
                    w.last_parsed = None;
                    if existing.is_none() {
                        refresh_alias(w, node)?;
                    }
                    match keep {
                        Some(k) => put(&mut s.files, *k, FileH { f: fh, node, pos: 0, dirty: false }),
                        None => {
                            lib!(drop(fh));
                        }
                    }
                }
            }
        }
        Op::OpenFile { base, path, slot } => {
            let Some(bh) = dir_of(s, *base) else { return Ok(()) };
            let bnode = bh.node;
            base_touch(s, &w.model, *base, &mut out);
            path_touch(&w.model, bnode, path, &mut out);
            let mut errs = vec![];
            let target = match w.model.resolve(bnode, path) {
                Err(e) => {
                    errs.push(e);
                    None
                }
                Ok(n) => {
                    if w.model.nodes[n].is_dir {
                        errs.push(E::InvalidInput);
                    }
                    Some(n)
                }
            };
            if let Some(n) = target {
                if s.files.iter().flatten().any(|h| h.node == n) {
                    w.disk.borrow_mut().disarm();
                    return Ok(());
                }
            }
            let r = lib!(bh.d.open_file(path));
            out.res = r.as_ref().map(|_| ()).map_err(map_err);
            check_outcome(w, &format!("open_file({:?})", path), &out.res, &errs, false, false)?;
            if let (Ok(fh), Some(n)) = (r, target) {
                put(&mut s.files, *slot, FileH { f: fh, node: n, pos: 0, dirty: false });
            }
        }
        Op::OpenDir { base, path, slot } => {
            let Some(bh) = dir_of(s, *base) else { return Ok(()) };
            let bnode = bh.node;
            base_touch(s, &w.model, *base, &mut out);
            path_touch(&w.model, bnode, path, &mut out);
            let mut errs = vec![];
            let target = match w.model.resolve(bnode, path) {
                Err(e) => {
                    errs.push(e);
                    None
                }
                Ok(n) => {
                    if !w.model.nodes[n].is_dir {
                        errs.push(E::InvalidInput);
                    }
                    Some(n)
                }
            };
            let r = lib!(bh.d.open_dir(path));
            out.res = r.as_ref().map(|_| ()).map_err(map_err);
            check_outcome(w, &format!("open_dir({:?})", path), &out.res, &errs, false, false)?;
            if let (Ok(dh), Some(n)) = (r, target) {
                if *slot != 0 {
                    // a path ending in ".." yields a Dir that writes its time stamps back into the ".." slot of the
                    // directory it was reached from: it is a reference into that directory
                    let comps = model::components(path);
                    let via = if *comps.last().unwrap() == ".." { w.model.walk_parent(bnode, path).ok().map(|x| x.0) } else { None };
                    put(&mut s.dirs, *slot, DirH { d: dh, node: n, via });
                }
            }
        }
        Op::List { base } => {
            let Some(bh) = dir_of(s, *base) else { return Ok(()) };
            let bnode = bh.node;
            base_touch(s, &w.model, *base, &mut out);
            ancestors(&w.model, bnode, &mut out);
            let r = lib!({
                let mut names: Vec<(Vec<u16>, bool, u64)> = vec![];
                let mut err = None;
                for e in bh.d.iter() {
                    match e {
                        Ok(e) => {
                            let sb = e.short_file_name_as_bytes();
                            if sb == b"." || sb == b".." {
                                continue;
                            }
                            names.push((entry_name_units(&e), e.is_dir(), e.len()));
                        }
                        Err(e) => {
                            err = Some(map_err(&e));
                            break;
                        }
                    }
                }
                match err {
                    Some(e) => Err(e),
                    None => Ok(names),
                }
            });
            out.res = r.as_ref().map(|_| ()).map_err(|e| e.clone());
            if let Ok(mut names) = r {
                if o.outcome && !w.faulted {
                    let flux: Vec<NodeId> = s.files.iter().flatten().filter(|h| h.dirty).map(|h| h.node).collect();
                    let mut want: Vec<(Vec<u16>, bool, Option<u64>)> = w.model.nodes[bnode]
                        .children
                        .iter()
                        .map(|c| {
                            let n = &w.model.nodes[*c];
                            let sz = if n.is_dir || flux.contains(c) { None } else { Some(n.content.len() as u64) };
                            (n.name.encode_utf16().collect(), n.is_dir, sz)
                        })
                        .collect();
                    want.sort();
                    names.sort();
                    let same = want.len() == names.len()
                        && want.iter().zip(names.iter()).all(|(a, b)| a.0 == b.0 && a.1 == b.1 && a.2.map_or(true, |s| s == b.2));
                    if !same {
                        let show = |v: &Vec<(Vec<u16>, bool, u64)>| {
                            v.iter().map(|x| format!("{}{}:{}", String::from_utf16_lossy(&x.0), if x.1 { "/" } else { "" }, x.2)).collect::<Vec<_>>().join(",")
                        };
                        return Err(viol(
                            "C01",
                            "listing-differs",
                            format!(
                                "listing of {} = [{}], model = [{}]",
                                w.model.path_string(bnode),
                                show(&names),
                                want.iter().map(|x| format!("{}{}", String::from_utf16_lossy(&x.0), if x.1 { "/" } else { "" })).collect::<Vec<_>>().join(",")
                            ),
                            step_no,
                        ));
                    }
                }
                let mut hs = 0u64;
                for n in &names {
                    hs ^= crate::rng::hash_bytes(7, &n.0.iter().flat_map(|u| u.to_le_bytes()).collect::<Vec<u8>>());
                }
                w.observe(&format!("list:{}:{:x}", names.len(), hs));
            }
        }
        Op::Remove { base, path } => {
            let Some(bh) = dir_of(s, *base) else { return Ok(()) };
            let bnode = bh.node;
            out.mutating = true;
            base_touch(s, &w.model, *base, &mut out);
            path_touch(&w.model, bnode, path, &mut out);
            let mut errs = vec![];
            let target = match w.model.resolve(bnode, path) {
                Err(e) => {
                    errs.push(e);
                    None
                }
                Ok(n) => {
                    if w.model.nodes[n].is_dir && !w.model.nodes[n].children.is_empty() {
                        errs.push(E::DirNotEmpty);
                    }
                    Some(n)
                }
            };
            if target == Some(ROOT) || target == Some(bnode) && false {
                w.disk.borrow_mut().disarm();
                return Ok(());
            }
            if let Some(n) = target {
                // never remove an ancestor-or-self of a directory some handle is based in, nor an open object
                lib!(drop_handles_to(s, n));
            }
            let Some(bh) = dir_of(s, *base) else {
                w.disk.borrow_mut().disarm();
                return Ok(());
            };
            let r = lib!(bh.d.remove(path));
            out.res = r.map_err(|e| map_err(&e));
            check_outcome(w, &format!("remove({:?})", path), &out.res, &errs, false, false)?;
            if out.res.is_ok() {
                if let Some(n) = target {
                    w.model.remove(n);
                }
                w.last_parsed = None;
            }
        }
        Op::Rename { sbase, spath, dbase, dpath } => {
            let (Some(sh), Some(dh)) = (dir_of(s, *sbase), dir_of(s, *dbase)) else { return Ok(()) };
            let (snode, dnode) = (sh.node, dh.node);
            out.mutating = true;
            base_touch(s, &w.model, *sbase, &mut out);
            base_touch(s, &w.model, *dbase, &mut out);
            path_touch(&w.model, snode, spath, &mut out);
            path_touch(&w.model, dnode, dpath, &mut out);
            let mut errs = vec![];
            let src = match w.model.resolve(snode, spath) {
                Err(e) => {
                    errs.push(e);
                    None
                }
                Ok(n) => Some(n),
            };
            let mut dst = None;
            let mut same = false;
            match w.model.walk_parent(dnode, dpath) {
                Err(e) => errs.push(e),
                Ok((p, leaf)) => {
                    dst = Some((p, leaf.to_string()));
                    match w.model.child(p, leaf) {
                        Some(n) => {
                            if Some(n) == src {
                                same = true;
                            } else {
                                errs.push(E::AlreadyExists);
                            }
                        }
                        None => errs.extend(model::name_errors(leaf)),
                    }
                }
            }
            if src == Some(ROOT) {
                w.disk.borrow_mut().disarm();
                return Ok(());
            }
            let mut self_move = false;
            if let (Some(sn), Some((dp, _))) = (src, &dst) {
                if w.model.nodes[sn].is_dir && w.model.is_ancestor_or_self(sn, *dp) && !same {
                    self_move = true;
                }
            }
            if let Some(n) = src {
                lib!(drop_handles_to(s, n));
            }
            let (Some(sh), Some(dh)) = (dir_of(s, *sbase), dir_of(s, *dbase)) else {
                w.disk.borrow_mut().disarm();
                return Ok(());
            };
            let will_move = errs.is_empty() && !same && !self_move;
            let nospace_ok = will_move && dst.as_ref().map_or(false, |(p, leaf)| nospace_justified(w, &before, *p, leaf, 0));
            let r = lib!(sh.d.rename(spath, &dh.d, dpath));
            out.res = r.map_err(|e| map_err(&e));
            check_outcome(w, &format!("rename({:?} -> {:?})", spath, dpath), &out.res, &errs, nospace_ok, self_move && errs.is_empty())?;
            if out.res.is_ok() && !will_move && !same && !(errs.is_empty() && self_move) && !errs.is_empty() {
                // library renamed something the model says cannot be renamed (outcome oracle off): stop the run
                w.stats.model_diverged += 1;
                w.faulted = true;
                w.stop = true;
                return Ok(());
            }
            if out.res.is_ok() && will_move {
                let (dp, leaf) = dst.unwrap();
                let sn = src.unwrap();
                w.model.mv(sn, dp, &leaf);
                w.last_parsed = None;
                refresh_alias(w, sn)?;
            }
            if out.res.is_ok() {
                w.last_parsed = None;
            }
        }
        Op::Write { f, len, fill } => {
            let Some(Some(h)) = s.files.get_mut(*f as usize) else { return Ok(()) };
            out.is_file_op = true;
            out.mutating = true;
            out.file_node = Some(h.node);
            ancestors(&w.model, h.node, &mut out);
            flux_file = Some(h.node);
            let mut data = vec![0u8; *len as usize];
            crate::rng::Rng::new(*fill).fill(&mut data);
            let cluster = w.geo.cluster_bytes;
            let mut done = 0usize;
            let mut spins = 0u32;
            let mut res: Result<(), E> = Ok(());
            if data.is_empty() {
                // a zero-length write is a call too: it must return 0 and change nothing
                match lib!(h.f.write(&data)) {
                    Ok(0) => {}
                    Ok(n) => return Err(viol("C02", "write-count", format!("write of 0 bytes at {} returned {}", h.pos, n), step_no)),
                    Err(e) => res = Err(map_err(&e)),
                }
            }
            while done < data.len() {
                let r = lib!(h.f.write(&data[done..]));
                match r {
                    Ok(n) => {
                        let max_ok = (data.len() - done) as u64;
                        if n == 0 || n as u64 > max_ok {
                            if n == 0 && h.pos >= u64::from(u32::MAX) {
                                break;
                            }
                            return Err(viol("C02", "write-count", format!("write of {} bytes at {} returned {}", max_ok, h.pos, n), step_no));
                        }
                        if done == 0 && (h.pos % cluster) + data.len() as u64 > cluster && h.pos % cluster != 0 {
                            // the caller's write starts inside a cluster and continues into the next one
                            w.stats.write_cross_cluster += 1;
                        }
                        let node = &mut w.model.nodes[h.node];
                        let end = h.pos as usize + n;
                        if node.content.len() < end {
                            node.content.resize(end, 0);
                        }
                        node.content[h.pos as usize..end].copy_from_slice(&data[done..done + n]);
                        node.modified = model::round_modified(now);
                        h.pos += n as u64;
                        h.dirty = true;
                        done += n;
                    }
                    Err(e) => {
                        let me = map_err(&e);
                        if me == E::IoOther("interrupted".into()) {
                            spins += 1;
                            if spins < 100_000 {
                                continue;
                            }
                        }
                        res = Err(me);
                        break;
                    }
                }
            }
            out.res = res.clone();
            if let Err(e) = &res {
                match e {
                    E::Io(_) => {}
                    E::NoSpace => {
                        // justified only when the cursor sits on a cluster boundary at the end of the chain and no cluster is free
                        let free_now = w.parsed_fresh()?.free;
                        if o.file_model && free_now != 0 {
                            return Err(viol("C05", "nospace-with-space-left", format!("write: NotEnoughSpace with {} free cluster(s)", free_now), step_no));
                        }
                        w.stats.nospace_seen += 1;
                    }
                    other => {
                        if o.file_model {
                            return Err(viol("C02", "write-error", format!("write returned {:?}", other), step_no));
                        }
                    }
                }
            }
            w.last_parsed = None;
        }
        Op::Read { f, len } => {
            let Some(Some(h)) = s.files.get_mut(*f as usize) else { return Ok(()) };
            out.is_file_op = true;
            ancestors(&w.model, h.node, &mut out);
            let mut buf = vec![0xA5u8; *len as usize];
            let mut spins = 0;
            let r = loop {
                let r = lib!(h.f.read(&mut buf));
                match &r {
                    Err(e) if map_err(e) == E::IoOther("interrupted".into()) && spins < 100_000 => {
                        spins += 1;
                        continue;
                    }
                    _ => break r,
                }
            };
            match r {
                Ok(n) => {
                    let size = w.model.nodes[h.node].content.len() as u64;
                    let left = size.saturating_sub(h.pos);
                    let max = (*len as u64).min(left);
                    if o.file_model && !w.faulted {
                        if (n == 0) != (max == 0) || n as u64 > max {
                            return Err(viol("C02", "read-count", format!("read({}) at {} of {} returned {}", len, h.pos, size, n), step_no));
                        }
                        let want = &w.model.nodes[h.node].content[h.pos as usize..h.pos as usize + n];
                        if want != &buf[..n] {
                            let first = want.iter().zip(buf.iter()).position(|(a, b)| a != b).unwrap_or(0);
                            return Err(viol(
                                "C02",
                                "read-data",
                                format!("read({}) at {} returned wrong bytes (first difference at +{})", len, h.pos, first),
                                step_no,
                            ));
                        }
                    }
                    w.observe(&format!("read:{}:{:x}", n, crate::rng::hash_bytes(1, &buf[..n])));
                    h.pos += n as u64;
                    if n > 0 && w.cfg.access_date {
                        w.model.nodes[h.node].accessed = now.date();
                        h.dirty = true;
                    }
                    out.res = Ok(());
                }
                Err(e) => {
                    out.res = Err(map_err(&e));
                    if o.file_model && !matches!(out.res, Err(E::Io(_))) {
                        return Err(viol("C02", "read-error", format!("read returned {:?}", e), step_no));
                    }
                }
            }
        }
        Op::Seek { f, whence, off } => {
            let Some(Some(h)) = s.files.get_mut(*f as usize) else { return Ok(()) };
            out.is_file_op = true;
            ancestors(&w.model, h.node, &mut out);
            let size = w.model.nodes[h.node].content.len() as i128;
            let (sf, target): (SeekFrom, i128) = match whence {
                0 => (SeekFrom::Start(*off as u64), i128::from(*off as u64)),
                1 => (SeekFrom::Current(*off), i128::from(h.pos) + i128::from(*off)),
                _ => (SeekFrom::End(*off), size + i128::from(*off)),
            };
            let expect: Result<u64, E> = if target < 0 || target > i128::from(u32::MAX) {
                Err(E::InvalidInput)
            } else {
                Ok(target.min(size) as u64)
            };
            let r = lib!(h.f.seek(sf));
            let got = r.map_err(|e| map_err(&e));
            out.res = got.clone().map(|_| ());
            if o.file_model && !w.faulted && !matches!(got, Err(E::Io(_))) && got != expect {
                return Err(viol("C02", "seek-result", format!("seek({:?}) from {} (size {}) returned {:?}, expected {:?}", sf, h.pos, size, got, expect), step_no));
            }
            if let Ok(p) = got {
                h.pos = p;
            }
            w.observe(&format!("seek:{:?}", out.res.is_ok()));
        }
        Op::Truncate { f } => {
            let Some(Some(h)) = s.files.get_mut(*f as usize) else { return Ok(()) };
            out.is_file_op = true;
            out.mutating = true;
            out.file_node = Some(h.node);
            ancestors(&w.model, h.node, &mut out);
            flux_file = Some(h.node);
            let r = lib!(h.f.truncate());
            out.res = r.map_err(|e| map_err(&e));
            match &out.res {
                Ok(()) => {
                    w.model.nodes[h.node].content.truncate(h.pos as usize);
                    h.dirty = true;
                }
                Err(E::Io(_)) => {}
                Err(e) => {
                    if o.file_model {
                        return Err(viol("C02", "truncate-error", format!("truncate returned {:?}", e), step_no));
                    }
                }
            }
            w.last_parsed = None;
        }
        Op::Flush { f } => {
            let Some(Some(h)) = s.files.get_mut(*f as usize) else { return Ok(()) };
            out.is_file_op = true;
            out.file_node = Some(h.node);
            ancestors(&w.model, h.node, &mut out);
            let r = lib!(h.f.flush());
            out.res = r.map_err(|e| map_err(&e));
            if out.res.is_ok() {
                h.dirty = false;
            } else if o.file_model && !matches!(out.res, Err(E::Io(_))) {
                return Err(viol("C02", "flush-error", format!("flush returned {:?}", out.res), step_no));
            }
            w.last_parsed = None;
        }
        Op::CloseFile { f } => {
            let Some(slot) = s.files.get_mut(*f as usize) else { return Ok(()) };
            let Some(h) = slot.take() else { return Ok(()) };
            out.is_file_op = true;
            out.file_node = Some(h.node);
            ancestors(&w.model, h.node, &mut out);
            lib!(drop(h));
            w.last_parsed = None;
        }
        Op::CloseDir { d } => {
            if *d == 0 {
                return Ok(());
            }
            let Some(slot) = s.dirs.get_mut(*d as usize) else { return Ok(()) };
            let Some(h) = slot.take() else { return Ok(()) };
            ancestors(&w.model, h.node, &mut out);
            lib!(drop(h));
        }
        Op::SetTime { f, which, t } => {
            let Some(Some(h)) = s.files.get_mut(*f as usize) else { return Ok(()) };
            out.is_file_op = true;
            out.file_node = Some(h.node);
            ancestors(&w.model, h.node, &mut out);
            let n = &mut w.model.nodes[h.node];
            match which {
                0 => {
                    lib!(h.f.set_created(t.to_fat()));
                    n.created = model::round_created(*t);
                }
                1 => {
                    lib!(h.f.set_modified(t.to_fat()));
                    n.modified = model::round_modified(*t);
                }
                _ => {
                    lib!(h.f.set_accessed(fatfs::Date::new(t.y, t.mo, t.d)));
                    n.accessed = t.date();
                }
            }
            h.dirty = true;
        }
        Op::Stats => {
            let r = lib!(s.fs.stats());
            match r {
                Ok(st) => {
                    if !w.count_known {
                        w.stats_called_unusable = true;
                    }
                    w.count_known = true;
                    if o.free_count && !w.faulted {
                        oracle::check_stats(w, &st)?;
                    }
                    w.observe(&format!("stats:{}:{}:{}", st.free_clusters(), st.total_clusters(), st.cluster_size()));
                }
                Err(e) => out.res = Err(map_err(&e)),
            }
        }
        Op::Status => {
            let r = lib!(s.fs.read_status_flags());
            match r {
                Ok(fl) => {
                    w.observe(&format!("status:{}:{}", fl.dirty(), fl.io_error()));
                    // independent reading: boot-sector status byte as found at mount, or-ed with the flags other drivers
                    // keep in FAT[1] (FAT16 bits 15/14, FAT32 bits 27/26; a cleared bit raises the flag)
                    let g = &w.geo;
                    let e1 = refdec::fat_raw(&w.disk.borrow().store, g, g.active_fat(), 1);
                    let (fd, fe) = match g.fat_bits {
                        16 => (e1 & 0x8000 == 0, e1 & 0x4000 == 0),
                        32 => (e1 & 0x0800_0000 == 0, e1 & 0x0400_0000 == 0),
                        _ => (false, false),
                    };
                    let want = (w.mount_status & 1 != 0 || fd, w.mount_status & 2 != 0 || fe);
                    if (o.dirty_bit || o.outcome || o.read_only) && !w.faulted && (fl.dirty(), fl.io_error()) != want {
                        return Err(viol(&prop, "status-flags-differ", format!("read_status_flags() = (dirty {}, io_error {}), raw image says {:?} (status byte at mount {:#04x}, FAT[1] {:#x})", fl.dirty(), fl.io_error(), want, w.mount_status, e1), step_no));
                    }
                }
                Err(e) => out.res = Err(map_err(&e)),
            }
        }
        Op::Label => {
            let r = lib!(s.fs.read_volume_label_from_root_dir_as_bytes());
            match r {
                Ok(l) => {
                    let want: Option<[u8; 11]> = before.dirs.iter().find(|d| d.is_root).and_then(|d| {
                        d.labels.first().map(|i| {
                            let mut a = [0u8; 11];
                            a.copy_from_slice(&d.slots[*i].b[..11]);
                            a
                        })
                    });
                    if o.outcome && l != want {
                        return Err(viol(&prop, "label-differs", format!("library {:?}, raw image {:?}", l, want), step_no));
                    }
                    // BPB label / id against the raw boot sector (only meaningful with the extended boot signature)
                    let (sig_off, id_off, lab_off) = if w.geo.ext_layout { (66u64, 67u64, 71u64) } else { (38, 39, 43) };
                    let bl = lib!(s.fs.volume_label_as_bytes().to_vec());
                    let id = lib!(s.fs.volume_id());
                    let d = w.disk.borrow();
                    if d.store.u8_at(sig_off) == 0x29 && o.outcome {
                        let mut raw = d.store.get(lab_off, 11);
                        while raw.last() == Some(&b' ') {
                            raw.pop();
                        }
                        if bl != raw || id != d.store.u32_at(id_off) {
                            return Err(viol(&prop, "bpb-label-or-id-differs", format!("library label {:?} id {:#x}, raw {:?} / {:#x}", bl, id, raw, d.store.u32_at(id_off)), step_no));
                        }
                    }
                }
                Err(e) => out.res = Err(map_err(&e)),
            }
        }
        Op::Clock { t } => {
            if *t < w.clock.get() {
                w.stats.clock_back += 1;
            }
            w.clock.set(*t);
            w.disk.borrow_mut().disarm();
            return Ok(());
        }
        Op::Checkpoint => {
            w.disk.borrow_mut().disarm();
            return oracle::checkpoint(w, s);
        }
        Op::Remount { .. } => unreachable!(),
    }

    // ---- after the call ----
    let injected = w.disk.borrow().injected.clone();
    while w.step_calls.len() < step_no {
        w.step_calls.push(0);
    }
    w.step_calls.push(w.disk.borrow().op_calls);
    w.step_injected = !injected.is_empty();
    if !injected.is_empty() {
        w.stats.hard_faults += injected.len() as u64;
        w.faulted = true;
        w.faulted_in_rename = matches!(step.op, Op::Rename { .. });
        if o.io_errors {
            // C09: an error injected outside a destructor must come back as Error::Io carrying the storage's error
            let outside: Vec<u64> = injected.iter().filter(|i| !i.in_drop).map(|i| i.id).collect();
            if !outside.is_empty() {
                match &out.res {
                    Err(E::Io(id)) if outside.contains(id) => {}
                    Err(E::Io(id)) => {
                        return Err(viol("C09", "io-error-masked", format!("{:?}: injected error id(s) {:?} (device call {} of the operation), returned Io({})", step.op, outside, injected[0].k, id), step_no))
                    }
                    Ok(()) => {
                        return Err(viol(
                            "C09",
                            "io-error-swallowed",
                            format!("{:?}: storage error injected at device call {} ({:?}) but the call returned Ok", step.op, injected[0].k, injected[0].kind),
                            step_no,
                        ))
                    }
                    Err(e) => {
                        return Err(viol(
                            "C09",
                            "io-error-masked",
                            format!("{:?}: storage error injected at device call {} ({:?}) came back as {:?}", step.op, injected[0].k, injected[0].kind, e),
                            step_no,
                        ))
                    }
                }
            }
        }
    }
    match &out.res {
        Ok(()) => w.stats.ops_ok += 1,
        Err(_) => w.stats.ops_err += 1,
    }
    w.observe(&format!("{}:{:?}", step_no, out.res));
    let flux: Vec<NodeId> = s.files.iter().flatten().filter(|h| h.dirty).map(|h| h.node).collect();
    let open_files: Vec<NodeId> = s.files.iter().flatten().map(|h| h.node).collect();
    let _ = flux_file;
    let ctx = PostCtx { before_store, before, out: &out, flux, open_files, op: &step.op };
    oracle::post_step(w, s, &ctx)
}

impl World {
    pub fn parsed_fresh(&mut self) -> Result<Rc<Parsed>, Violation> {
        self.last_parsed = None;
        self.parsed()
    }
}
