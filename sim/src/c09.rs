//! C09: exhaustive single-fault enumeration. For a history and a target operation, the operation is first
//! run fault-free to count its N device calls, then the whole history is re-run N times from the same
//! initial image with device call k of the target failing (k = 1..=N).
use crate::disk::{DiskState, FaultPlan, LogMode, SimDisk, Store};
use crate::engine::{fs_options, guarded, Guarded, ReplaySource};
use crate::exec;
use crate::gen::{Gen, Profile};
use crate::props;
use crate::rng::Rng;
use crate::runner::{Batch, RunOutcome};
use crate::types::*;
use serde_json::json;
use std::cell::RefCell;
use std::rc::Rc;

fn op_kind(op: &Op) -> &'static str {
    match op {
        Op::CreateFile { .. } => "create_file",
        Op::CreateDir { .. } => "create_dir",
        Op::OpenFile { .. } => "open_file",
        Op::OpenDir { .. } => "open_dir",
        Op::List { .. } => "list",
        Op::Remove { .. } => "remove",
        Op::Rename { .. } => "rename",
        Op::Write { .. } => "write",
        Op::Read { .. } => "read",
        Op::Seek { .. } => "seek",
        Op::Truncate { .. } => "truncate",
        Op::Flush { .. } => "flush",
        Op::CloseFile { .. } => "close_file(drop)",
        Op::CloseDir { .. } => "close_dir(drop)",
        Op::SetTime { .. } => "set_time",
        Op::Stats => "stats",
        Op::Status => "read_status_flags",
        Op::Label => "read_volume_label",
        Op::Clock { .. } => "clock",
        Op::Checkpoint => "checkpoint",
        Op::Remount { .. } => "remount",
    }
}

/// One seeded scenario: generate a fault-free history, pick targets, enumerate every fault position of each.
pub fn scenario(seed: u64, sticky: bool, max_points: u64) -> RunOutcome {
    scenario_for(seed, sticky, max_points, "C09", Oracles { io_errors: true, ..Default::default() }, None, false)
}

/// The same enumeration in the service of another property: `oracles` decide what is checked in the fault-free run and
/// (in its relaxed form) after the failed operation; `which` restricts the targets; with `retry` the failed call is issued
/// once more without a fault (for oracles that stay in force after a storage error).
pub fn scenario_for(seed: u64, sticky: bool, max_points: u64, prop: &'static str, oracles: Oracles, which: Option<fn(&Op) -> bool>, retry: bool) -> RunOutcome {
    let mut r = Rng::new(seed);
    let mut fl = props::base_flavor(prop);
    fl.oracles = oracles;
    fl.max_cluster_bytes = 16384;
    fl.fat_w = [4, 3, 3];
    let cfg = props::draw_cfg(&mut r, &fl);
    let mut prof = if r.chance(1, 2) { Profile::fileio() } else { Profile::mixed() };
    prof.steps = r.range(3, 25) as usize;
    prof.w_checkpoint = 0;
    prof.w_remount = 1;
    prof.w_stats = 6;
    prof.w_status = 3;
    prof.invalid_names = 10;
    prof.max_write = 40_000;
    let mut g = Gen::new(r.next_u64(), prof);
    let base = exec::run(cfg.clone(), prop, &mut g, 200);
    let mut o = RunOutcome::empty();
    o.evaluations = 0;
    o.stats = base.stats.clone();
    if let Some(v) = base.violation {
        let rep = Replay { property: prop.into(), kind: "engine".into(), seed, cfg, steps: base.trace, violation: Some(v.clone()) };
        o.violation = Some((v, rep));
        return o;
    }
    // candidate targets: steps that issued device calls
    let cands: Vec<usize> = (0..base.trace.len()).filter(|i| base.step_calls.get(*i).copied().unwrap_or(0) > 0 && !matches!(base.trace[*i].op, Op::Checkpoint | Op::Remount { .. } | Op::Clock { .. }) && which.map_or(true, |f| f(&base.trace[*i].op))).collect();
    if cands.is_empty() {
        return o;
    }
    let n_targets = 2.min(cands.len());
    let mut sample_txt = vec![];
    for _ in 0..n_targets {
        // balance over operation kinds: first a kind that occurs, then one of its steps
        let mut kinds: Vec<&'static str> = cands.iter().map(|i| op_kind(&base.trace[*i].op)).collect();
        kinds.sort_unstable();
        kinds.dedup();
        let kind = *r.pick(&kinds);
        let of_kind: Vec<usize> = cands.iter().copied().filter(|i| op_kind(&base.trace[*i].op) == kind).collect();
        let t = *r.pick(&of_kind);
        let n = base.step_calls[t];
        let ks: Vec<u64> = if n <= max_points { (1..=n).collect() } else { (0..max_points).map(|_| r.range(1, n)).collect() };
        let exhaustive = n <= max_points;
        *o.counters.entry(format!("target:{}", op_kind(&base.trace[t].op))).or_insert(0) += 1;
        *o.counters.entry(format!("fault_points:{}", op_kind(&base.trace[t].op))).or_insert(0) += ks.len() as u64;
        if exhaustive {
            *o.counters.entry("targets_enumerated_exhaustively".into()).or_insert(0) += 1;
        } else {
            *o.counters.entry("targets_sampled".into()).or_insert(0) += 1;
        }
        sample_txt.push(format!("target step {} {:?}: {} device calls, {} fault positions", t, base.trace[t].op, n, ks.len()));
        for k in ks {
            let mut steps: Vec<Step> = base.trace[..=t].to_vec();
            steps[t].hard_at = Some(k);
            steps[t].sticky = sticky;
            if retry {
                steps.push(base.trace[t].clone());
            }
            let mut src = ReplaySource { steps: steps.clone(), i: 0 };
            let res = exec::run(cfg.clone(), prop, &mut src, steps.len() + 1);
            o.evaluations += 1;
            o.distinct.push(crate::rng::hash_bytes(k, format!("{}:{:?}", op_kind(&steps[t].op), base.step_calls[t]).as_bytes()) ^ seed);
            o.stats.fired.hard += res.stats.fired.hard;
            o.stats.hard_faults += res.stats.hard_faults;
            if res.stats.fired.hard == 0 {
                *o.counters.entry("fault_did_not_fire(harness-determinism-alarm)".into()).or_insert(0) += 1;
            }
            if let Some(v) = res.violation {
                let rep = Replay { property: prop.into(), kind: "engine".into(), seed, cfg: cfg.clone(), steps, violation: Some(v.clone()) };
                o.violation = Some((v, rep));
                return o;
            }
        }
    }
    o.sample = Some(json!({"seed": seed, "config": props::cfg_summary(&cfg), "history_len": base.trace.len(), "targets": sample_txt}));
    o
}

/// A fixed, representative file-I/O history in which EVERY step is a target in turn (seeded histories rarely
/// pick reads, seeks and truncates): all fault positions of all steps, on a swarm-drawn volume.
pub fn scripted(seed: u64) -> RunOutcome {
    let mut r = Rng::new(seed);
    let mut fl = props::base_flavor("C09");
    fl.oracles = Oracles { io_errors: true, ..Default::default() };
    fl.max_cluster_bytes = 4096;
    fl.fat_w = [4, 3, 3];
    fl.ballast_pct = 30;
    let cfg = props::draw_cfg(&mut r, &fl);
    let c = u32::from(cfg.vol.spc) * u32::from(cfg.vol.bps);
    let mk = |op: Op| Step { c: 0, op, hard_at: None, sticky: false };
    let script: Vec<Step> = vec![
        mk(Op::CreateDir { base: 0, path: "dir".into(), keep: Some(1) }),
        mk(Op::CreateFile { base: 1, path: "a long file name.bin".into(), keep: Some(0) }),
        mk(Op::Write { f: 0, len: 2 * c + 17, fill: r.next_u64() }),
        mk(Op::Seek { f: 0, whence: 0, off: 5 }),
        mk(Op::Read { f: 0, len: c + 9 }),
        mk(Op::Seek { f: 0, whence: 2, off: 0 }),
        mk(Op::Seek { f: 0, whence: 0, off: i64::from(c) + 1 }),
        mk(Op::Write { f: 0, len: 100, fill: r.next_u64() }),
        mk(Op::Seek { f: 0, whence: 1, off: -3 }),
        mk(Op::Truncate { f: 0 }),
        mk(Op::Flush { f: 0 }),
        mk(Op::Write { f: 0, len: c + 5, fill: r.next_u64() }),
        mk(Op::SetTime { f: 0, which: 1, t: crate::clock::MAX_STAMP }),
        mk(Op::CloseFile { f: 0 }),
        mk(Op::OpenFile { base: 0, path: "DIR/A LONG FILE NAME.BIN".into(), slot: 1 }),
        mk(Op::Read { f: 1, len: 3 * c }),
        mk(Op::Seek { f: 1, whence: 0, off: 0 }),
        mk(Op::Truncate { f: 1 }),
        mk(Op::CloseFile { f: 1 }),
        mk(Op::List { base: 1 }),
        mk(Op::Rename { sbase: 1, spath: "a long file name.bin".into(), dbase: 0, dpath: "moved.bin".into() }),
        mk(Op::Stats),
        mk(Op::Status),
        mk(Op::Label),
        mk(Op::Remove { base: 0, path: "moved.bin".into() }),
        mk(Op::Remove { base: 0, path: "dir".into() }),
    ];
    let mut o = RunOutcome::empty();
    o.evaluations = 0;
    let mut src = ReplaySource { steps: script.clone(), i: 0 };
    let base = exec::run(cfg.clone(), "C09", &mut src, script.len() + 1);
    if let Some(v) = base.violation {
        let rep = Replay { property: "C09".into(), kind: "engine".into(), seed, cfg, steps: script, violation: Some(v.clone()) };
        o.violation = Some((v, rep));
        return o;
    }
    for t in 0..script.len() {
        let n = base.step_calls.get(t).copied().unwrap_or(0);
        if n == 0 {
            continue;
        }
        *o.counters.entry(format!("scripted_target:{}", op_kind(&script[t].op))).or_insert(0) += 1;
        for k in 1..=n.min(600) {
            let mut steps: Vec<Step> = script[..=t].to_vec();
            steps[t].hard_at = Some(k);
            let mut src = ReplaySource { steps: steps.clone(), i: 0 };
            let res = exec::run(cfg.clone(), "C09", &mut src, steps.len() + 1);
            o.evaluations += 1;
            o.stats.fired.hard += res.stats.fired.hard;
            o.distinct.push(crate::rng::hash_bytes(k, format!("s{}:{}", t, n).as_bytes()) ^ seed);
            *o.counters.entry(format!("fault_points:{}", op_kind(&script[t].op))).or_insert(0) += 1;
            if let Some(v) = res.violation {
                let rep = Replay { property: "C09".into(), kind: "engine".into(), seed, cfg: cfg.clone(), steps, violation: Some(v.clone()) };
                o.violation = Some((v, rep));
                return o;
            }
        }
    }
    o.sample = Some(json!({"seed": seed, "config": props::cfg_summary(&cfg), "scripted_history_steps": script.len()}));
    o
}

fn fresh_disk(store: Store) -> Rc<RefCell<DiskState>> {
    let st = Rc::new(RefCell::new(DiskState::new(store)));
    st.borrow_mut().log_mode = LogMode::Meta;
    st
}

/// mount / unmount / format_volume are not engine steps: enumerate their fault positions directly.
pub fn lifecycle(seed: u64) -> RunOutcome {
    let mut r = Rng::new(seed);
    let mut o = RunOutcome::empty();
    o.evaluations = 0;
    let mut fl = props::base_flavor("C09");
    fl.fat_w = [3, 3, 4];
    let cfg = props::draw_cfg(&mut r, &fl);
    let store = match exec::build_store(&cfg) {
        Ok(s) => s,
        Err(e) => {
            o.violation = Some((crate::engine::viol("HARNESS", "volume-build-failed", e, 0), Replay { property: "C09".into(), kind: "lifecycle".into(), seed, cfg, steps: vec![], violation: None }));
            return o;
        }
    };
    let clock = crate::clock::SimClock::new(cfg.start);
    let mk_viol = |class: &str, detail: String| {
        let v = crate::engine::viol("C09", class, detail, 0);
        (v.clone(), Replay { property: "C09".into(), kind: "lifecycle".into(), seed, cfg: cfg.clone(), steps: vec![], violation: Some(v) })
    };
    // --- mount ---
    let n_mount = {
        let st = fresh_disk(store.clone());
        st.borrow_mut().arm(FaultPlan::default());
        let fs = Fs::new(SimDisk::new(st.clone()), fs_options(&cfg, &clock));
        let n = st.borrow().op_calls;
        st.borrow_mut().disarm();
        drop(fs);
        n
    };
    for k in 1..=n_mount {
        let st = fresh_disk(store.clone());
        st.borrow_mut().arm(FaultPlan { hard_at: Some(k), budget: 1_000_000, ..Default::default() });
        let r = guarded(|| Fs::new(SimDisk::new(st.clone()), fs_options(&cfg, &clock)));
        o.evaluations += 1;
        o.distinct.push(crate::rng::hash_bytes(k, b"mount") ^ seed);
        *o.counters.entry("fault_points:mount".into()).or_insert(0) += 1;
        let inj = st.borrow().injected.clone();
        match r {
            Guarded::Done(Err(fatfs::Error::Io(e))) if inj.iter().any(|i| i.id == e.id) => {}
            Guarded::Done(Err(e)) => {
                o.violation = Some(mk_viol("io-error-masked", format!("mount: error injected at device call {} came back as {:?}", k, e)));
                return o;
            }
            Guarded::Done(Ok(fs)) => {
                let _ = guarded(|| drop(fs));
                o.violation = Some(mk_viol("io-error-swallowed", format!("mount: error injected at device call {} but FileSystem::new returned Ok", k)));
                return o;
            }
            Guarded::Panic(m) => {
                o.violation = Some(mk_viol("panic", format!("mount with error at device call {}: {}", k, m)));
                return o;
            }
            Guarded::Hang => {
                o.violation = Some(mk_viol("hang", format!("mount with error at device call {}", k)));
                return o;
            }
        }
    }
    // --- unmount after a mutation (FS-info dirty on FAT32, status byte to restore everywhere) ---
    let prep = |st: &Rc<RefCell<DiskState>>| -> Option<Fs> {
        st.borrow_mut().arm(FaultPlan::default());
        let fs = Fs::new(SimDisk::new(st.clone()), fs_options(&cfg, &clock)).ok()?;
        {
            let root = fs.root_dir();
            let _ = root.create_dir("c09dir");
            if let Ok(mut f) = root.create_file("c09.bin") {
                use fatfs::Write;
                let _ = f.write_all(&[7u8; 700]);
            }
            let _ = fs.stats();
        }
        Some(fs)
    };
    let n_unmount = {
        let st = fresh_disk(store.clone());
        match prep(&st) {
            Some(fs) => {
                st.borrow_mut().arm(FaultPlan::default());
                let _ = fs.unmount();
                let n = st.borrow().op_calls;
                n
            }
            None => 0,
        }
    };
    for k in 1..=n_unmount {
        let st = fresh_disk(store.clone());
        let Some(fs) = prep(&st) else { break };
        st.borrow_mut().arm(FaultPlan { hard_at: Some(k), budget: 1_000_000, ..Default::default() });
        let r = guarded(|| fs.unmount());
        o.evaluations += 1;
        o.distinct.push(crate::rng::hash_bytes(k, b"unmount") ^ seed);
        *o.counters.entry("fault_points:unmount".into()).or_insert(0) += 1;
        let inj = st.borrow().injected.clone();
        let outside: Vec<u64> = inj.iter().filter(|i| !i.in_drop).map(|i| i.id).collect();
        match r {
            Guarded::Done(Err(fatfs::Error::Io(e))) if outside.contains(&e.id) => {}
            Guarded::Done(Err(e)) => {
                o.violation = Some(mk_viol("io-error-masked", format!("unmount: error injected at device call {} came back as {:?}", k, e)));
                return o;
            }
            Guarded::Done(Ok(())) => {
                if !outside.is_empty() {
                    o.violation = Some(mk_viol("io-error-swallowed", format!("unmount: error injected at device call {} but unmount() returned Ok", k)));
                    return o;
                }
            }
            Guarded::Panic(m) => {
                o.violation = Some(mk_viol("panic", format!("unmount with error at device call {}: {}", k, m)));
                return o;
            }
            Guarded::Hang => {
                o.violation = Some(mk_viol("hang", format!("unmount with error at device call {}", k)));
                return o;
            }
        }
    }
    // --- drop of a dirty session with a dying device: only "no panic, no hang" ---
    for k in 1..=n_unmount.min(12) {
        let st = fresh_disk(store.clone());
        let Some(fs) = prep(&st) else { break };
        st.borrow_mut().arm(FaultPlan { hard_at: Some(k), sticky: true, budget: 1_000_000, ..Default::default() });
        let r = guarded(|| drop(fs));
        o.evaluations += 1;
        *o.counters.entry("fault_points:drop(FileSystem)".into()).or_insert(0) += 1;
        match r {
            Guarded::Done(()) => {}
            Guarded::Panic(m) => {
                o.violation = Some(mk_viol("panic", format!("FileSystem drop with device dead from call {}: {}", k, m)));
                return o;
            }
            Guarded::Hang => {
                o.violation = Some(mk_viol("hang", format!("FileSystem drop with device dead from call {}", k)));
                return o;
            }
        }
    }
    // --- format_volume (small volumes only: the fault positions are every device call of the format) ---
    if cfg.vol.fat != 32 && u64::from(cfg.vol.total_sectors) * u64::from(cfg.vol.bps) < (4 << 20) {
        let v = &cfg.vol;
        let mkopts = || {
            fatfs::FormatVolumeOptions::new()
                .bytes_per_sector(v.bps)
                .bytes_per_cluster(u32::from(v.spc) * u32::from(v.bps))
                .fats(v.fats)
                .max_root_dir_entries(v.root_entries)
                .fat_type(crate::vol::fat_type_of(v.fat))
                .total_sectors(v.total_sectors)
        };
        let len = (u64::from(v.total_sectors) + u64::from(v.extra_sectors)) * u64::from(v.bps);
        let n_fmt = {
            let st = fresh_disk(Store::new(len));
            st.borrow_mut().arm(FaultPlan::default());
            let mut d = SimDisk::new(st.clone());
            let _ = fatfs::format_volume(&mut d, mkopts());
            let n = st.borrow().op_calls;
            n
        };
        let ks: Vec<u64> = if n_fmt <= 400 { (1..=n_fmt).collect() } else { (0..400).map(|_| r.range(1, n_fmt)).collect() };
        for k in ks {
            let st = fresh_disk(Store::new(len));
            st.borrow_mut().arm(FaultPlan { hard_at: Some(k), budget: 5_000_000, ..Default::default() });
            let mut d = SimDisk::new(st.clone());
            let r = guarded(|| fatfs::format_volume(&mut d, mkopts()));
            o.evaluations += 1;
            o.distinct.push(crate::rng::hash_bytes(k, b"format") ^ seed);
            *o.counters.entry("fault_points:format_volume".into()).or_insert(0) += 1;
            let inj = st.borrow().injected.clone();
            match r {
                Guarded::Done(Err(fatfs::Error::Io(e))) if inj.iter().any(|i| i.id == e.id) => {}
                Guarded::Done(Err(e)) => {
                    o.violation = Some(mk_viol("io-error-masked", format!("format_volume: error injected at device call {} came back as {:?}", k, e)));
                    return o;
                }
                Guarded::Done(Ok(())) => {
                    o.violation = Some(mk_viol("io-error-swallowed", format!("format_volume: error injected at device call {} of {} but it returned Ok", k, n_fmt)));
                    return o;
                }
                Guarded::Panic(m) => {
                    o.violation = Some(mk_viol("panic", format!("format_volume with error at device call {}: {}", k, m)));
                    return o;
                }
                Guarded::Hang => {
                    o.violation = Some(mk_viol("hang", format!("format_volume with error at device call {}", k)));
                    return o;
                }
            }
        }
    }
    o.sample = Some(json!({"seed": seed, "config": props::cfg_summary(&cfg), "mount_calls": n_mount, "unmount_calls": n_unmount}));
    o
}

pub fn batches(tier: &str, seed: u64) -> Vec<Batch<'static>> {
    let (n1, n2, n3, pts) = if tier == "quick" { (400u64, 100u64, 400u64, 150u64) } else { (20_000, 5_000, 10_000, 2000) };
    let n4 = if tier == "quick" { 10u64 } else { 400 };
    vec![
        Batch { name: "representative file-I/O + namespace script, every step a target, every fault position".into(), runs: n4, f: Box::new(move |i| scripted(crate::rng::run_seed(seed, 14, i))) },
        Batch { name: "single-fault enumeration over seeded histories".into(), runs: n1, f: Box::new(move |i| scenario(crate::rng::run_seed(seed, 11, i), false, pts)) },
        Batch { name: "device dies at call k (sticky) over seeded histories".into(), runs: n2, f: Box::new(move |i| scenario(crate::rng::run_seed(seed, 12, i), true, pts)) },
        Batch { name: "mount / unmount / drop / format_volume enumeration".into(), runs: n3, f: Box::new(move |i| lifecycle(crate::rng::run_seed(seed, 13, i))) },
    ]
}
