//! C01: the deterministic stratum -- ALL histories of length <= L over a small alphabet of names / paths,
//! from several starting trees, on each FAT width (so shallow coverage does not depend on luck).
use crate::engine::ReplaySource;
use crate::exec;
use crate::props;
use crate::rng::Rng;
use crate::runner::{Batch, RunOutcome};
use crate::types::*;
use serde_json::json;

const PATHS: &[&str] = &["a", "A", "B.txt", "long name x.txt", "d", "d/a", "d/e", "d/e/B.TXT", "LONGNA~1.TXT"];

pub fn alphabet() -> Vec<Op> {
    let mut v = vec![];
    for p in PATHS {
        v.push(Op::CreateFile { base: 0, path: (*p).into(), keep: None });
        v.push(Op::CreateDir { base: 0, path: (*p).into(), keep: None });
        v.push(Op::Remove { base: 0, path: (*p).into() });
        v.push(Op::OpenFile { base: 0, path: (*p).into(), slot: 0 });
        v.push(Op::OpenDir { base: 0, path: (*p).into(), slot: 1 });
    }
    for s in PATHS {
        for d in PATHS {
            v.push(Op::Rename { sbase: 0, spath: (*s).into(), dbase: 0, dpath: (*d).into() });
        }
    }
    v.push(Op::List { base: 0 });
    v.push(Op::Write { f: 0, len: 700, fill: 1 });
    v.push(Op::CloseFile { f: 0 });
    v.push(Op::List { base: 1 });
    v
}

fn starts() -> Vec<Vec<Op>> {
    vec![
        vec![],
        vec![Op::CreateFile { base: 0, path: "a".into(), keep: None }, Op::CreateDir { base: 0, path: "d".into(), keep: None }, Op::CreateDir { base: 0, path: "d/e".into(), keep: None }, Op::CreateFile { base: 0, path: "long name x.txt".into(), keep: None }],
        vec![Op::CreateDir { base: 0, path: "d".into(), keep: None }, Op::CreateFile { base: 0, path: "d/a".into(), keep: None }, Op::CreateFile { base: 0, path: "B.txt".into(), keep: None }],
    ]
}

fn cfg_for(fat: u8, tiny: bool) -> RunCfg {
    let (total, spc) = match fat {
        12 => (400u32, 1u8),
        16 => (4500, 1),
        _ => (67_400, 1),
    };
    RunCfg {
        vol: VolCfg { source: VolSource::Format, fat, bps: 512, spc, fats: 2, root_entries: if tiny { 16 } else { 64 }, total_sectors: total, extra_sectors: 0, ballast_keep: if tiny { Some(3) } else { None }, ballast_mode: 0, fsinfo_mode: 0, hint: None, status: 0, label: false, tail_taken: 0, dirty_medium: false },
        access_date: false,
        strict: true,
        oem: Oem::Lossy,
        benign: BenignCfg::default(),
        oracles: Oracles { outcome: true, lib_tree: true, raw_tree: true, fail_atomic: true, fsck: true, ..Default::default() },
        start: crate::clock::Stamp { y: 2020, mo: 1, d: 1, h: 0, mi: 0, s: 0, ms: 0 },
        dev_seed: 1,
        ro_skip_sessions: 0,
    }
}

/// item -> (width, start tree, first op); enumerates every continuation of length `len - 1`
pub fn item(idx: u64, len: usize) -> RunOutcome {
    let alpha = alphabet();
    let st = starts();
    let n = alpha.len() as u64;
    let first = (idx % n) as usize;
    let rest = idx / n;
    let start = (rest % st.len() as u64) as usize;
    let rest = rest / st.len() as u64;
    let fat = [12u8, 16, 32][(rest % 3) as usize];
    let tiny = (rest / 3) % 2 == 1;
    let cfg = cfg_for(fat, tiny);
    let mut o = RunOutcome::empty();
    o.evaluations = 0;
    let tails: u64 = (alpha.len() as u64).pow((len - 1) as u32);
    // the volume is formatted once per item; every history starts from a copy-on-write clone of it
    let store0 = match exec::build_store(&cfg) {
        Ok(s) => s,
        Err(e) => {
            let v = crate::engine::viol("HARNESS", "volume-build-failed", e, 0);
            o.violation = Some((v.clone(), Replay { property: "C01".into(), kind: "engine".into(), seed: idx, cfg: cfg.clone(), steps: vec![], violation: Some(v) }));
            return o;
        }
    };
    for t in 0..tails {
        let mut steps: Vec<Step> = st[start].iter().cloned().map(|op| Step { c: 0, op, hard_at: None, sticky: false }).collect();
        steps.push(Step { c: 0, op: alpha[first].clone(), hard_at: None, sticky: false });
        let mut x = t;
        for _ in 1..len {
            steps.push(Step { c: 0, op: alpha[(x % n) as usize].clone(), hard_at: None, sticky: false });
            x /= n;
        }
        steps.push(Step { c: 0, op: Op::Checkpoint, hard_at: None, sticky: false });
        let mut src = ReplaySource { steps: steps.clone(), i: 0 };
        let res = exec::run_on(cfg.clone(), store0.clone(), "C01", &mut src, steps.len() + 1);
        o.evaluations += 1;
        o.stats.steps += res.stats.steps;
        for h in res.stats.state_hashes {
            o.distinct.push(h);
        }
        if let Some(v) = res.violation {
            let rep = Replay { property: "C01".into(), kind: "engine".into(), seed: idx, cfg: cfg.clone(), steps, violation: Some(v.clone()) };
            o.violation = Some((v, rep));
            return o;
        }
    }
    o.distinct.sort_unstable();
    o.distinct.dedup();
    o.sample = Some(json!({"fat": fat, "tiny_root_and_ballast": tiny, "start_tree": start, "first_op": format!("{:?}", alpha[first]), "continuations": tails}));
    let _ = Rng::new(0);
    let _ = props::cfg_summary(&cfg);
    o
}

pub fn batch(len: usize) -> Batch<'static> {
    let n = alphabet().len() as u64 * starts().len() as u64 * 3 * 2;
    Batch { name: format!("C01-exhaustive: ALL histories of length {} over {} operations x {} start trees x FAT12/16/32 x (normal | tiny root + 3 free clusters)", len, alphabet().len(), starts().len()), runs: n, f: Box::new(move |i| item(i, len)) }
}
