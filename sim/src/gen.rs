//! Seeded workload generator: several logical clients, each with its own handle slots, issue
//! namespace and file operations chosen by the scheduler's PRNG.
use crate::clock::{Stamp, MAX_STAMP, MIN_STAMP};
use crate::engine::{HandleView, StepSource, World};
use crate::model::{Model, NodeId, ROOT};
use crate::rng::Rng;
use crate::types::*;

#[derive(Clone, Debug)]
pub struct Profile {
    pub clients: u8,
    pub steps: usize,
    /// relative weights
    pub w_create_file: u32,
    pub w_create_dir: u32,
    pub w_open_file: u32,
    pub w_open_dir: u32,
    pub w_list: u32,
    pub w_remove: u32,
    pub w_rename: u32,
    pub w_write: u32,
    pub w_read: u32,
    pub w_seek: u32,
    pub w_truncate: u32,
    pub w_flush: u32,
    pub w_close: u32,
    pub w_settime: u32,
    pub w_stats: u32,
    pub w_status: u32,
    pub w_clock: u32,
    pub w_checkpoint: u32,
    pub w_remount: u32,
    /// per-mille probability that a step carries a hard fault
    pub hard_fault: u32,
    /// per-mille probability of an invalid leaf name
    pub invalid_names: u32,
    /// per-mille probability that a created/opened handle is kept
    pub keep: u32,
    pub max_depth: usize,
    pub allow_self_move: bool,
    pub read_only: bool,
    pub max_write: u32,
    /// restrict the name alphabet to ASCII (C19: builds with and without Unicode folding must agree)
    pub ascii_only: bool,
    /// per-cent probability that a session opens with a single isolated change to an existing file
    /// (open, seek, one of truncate / small write / set time, close) -- the "first change of a session" stratum
    pub gambit_pct: u32,
}

impl Profile {
    pub fn namespace() -> Self {
        Profile {
            clients: 2,
            steps: 30,
            w_create_file: 22,
            w_create_dir: 14,
            w_open_file: 6,
            w_open_dir: 8,
            w_list: 6,
            w_remove: 14,
            w_rename: 16,
            w_write: 8,
            w_read: 3,
            w_seek: 2,
            w_truncate: 2,
            w_flush: 2,
            w_close: 6,
            w_settime: 0,
            w_stats: 2,
            w_status: 1,
            w_clock: 3,
            w_checkpoint: 3,
            w_remount: 2,
            hard_fault: 0,
            invalid_names: 80,
            keep: 350,
            max_depth: 5,
            allow_self_move: true,
            read_only: false,
            max_write: 3000,
            ascii_only: false,
            gambit_pct: 15,
        }
    }
    pub fn fileio() -> Self {
        Profile {
            w_create_file: 10,
            w_create_dir: 2,
            w_open_file: 8,
            w_open_dir: 1,
            w_list: 1,
            w_remove: 3,
            w_rename: 2,
            w_write: 30,
            w_read: 18,
            w_seek: 16,
            w_truncate: 7,
            w_flush: 6,
            w_close: 6,
            w_settime: 2,
            w_stats: 2,
            invalid_names: 0,
            keep: 900,
            steps: 40,
            max_write: 1 << 20,
            ..Profile::namespace()
        }
    }
    pub fn mixed() -> Self {
        Profile { w_write: 18, w_read: 8, w_seek: 6, w_truncate: 5, w_flush: 4, keep: 600, steps: 40, w_settime: 2, max_write: 200_000, ..Profile::namespace() }
    }
    pub fn readonly() -> Self {
        Profile {
            w_create_file: 0,
            w_create_dir: 0,
            w_remove: 0,
            w_rename: 0,
            w_write: 0,
            w_truncate: 0,
            w_settime: 0,
            w_flush: 3,
            w_open_file: 20,
            w_open_dir: 12,
            w_list: 15,
            w_read: 25,
            w_seek: 15,
            w_close: 8,
            w_stats: 6,
            w_status: 5,
            w_clock: 2,
            w_checkpoint: 0,
            w_remount: 3,
            invalid_names: 30,
            read_only: true,
            ..Profile::namespace()
        }
    }
}

pub const VALID_NAMES: &[&str] = &[
    "a",
    "b.txt",
    "Readme.TXT",
    "README.txt",
    "long file name one.txt",
    "long file name two.txt",
    "longfilename.dat",
    "LONGFI~1.DAT",
    "LONGFI~2.DAT",
    "a+b.c",
    ".hidden",
    "trailing.dot.",
    "sp ace",
    "ünïcödé.txt",
    "ÜNÏCÖDÉ.TXT",
    "ß",
    "SS",
    "日本語ファイル",
    "prefix1 collides.bin",
    "prefix2 collides.bin",
    "prefix3 collides.bin",
    "prefix4 collides.bin",
    "prefix5 collides.bin",
    "pr",
    "a.b.c.d",
    "UPPER",
    "lower",
    "Mixed.Case.Ext",
    "~1",
    "$%'-_@~`!(){}^#&",
    "cfg{0}~a`.ini",
    "éa.txt",
    "dir",
    "sub",
    "x",
    "12345678.123",
    "123456789.1234",
    "a b c d e f g h i j k l m n o p q r s t u v w x y z",
    "thirteen chr.",
    "exactly26characters_long.x",
];

pub const INVALID_NAMES: &[&str] = &["a:b", "x?", "q*", "pipe|", "lt<", "gt>", "quo\"te", "bs\\", "tab\t", "nul\0", "\u{1F600}", "del\u{7f}"];

pub fn long_name(len: usize, tag: char) -> String {
    let mut s = String::new();
    while s.len() < len {
        s.push(tag);
        if s.len() % 17 == 0 && s.len() < len {
            s.push('.');
        }
    }
    s.truncate(len);
    s
}

/// `name` with one bit of one inner ASCII character flipped, if that gives a different valid name that does not
/// merely differ in letter case
pub fn near_miss(rng: &mut Rng, name: &str) -> Option<String> {
    let chars: Vec<char> = name.chars().collect();
    if chars.len() < 3 {
        return None;
    }
    const OK: &str = "$%'-_@~`!(){}^#&+,;=[]";
    for _ in 0..16 {
        let i = 1 + rng.usize_below(chars.len() - 2);
        let c = chars[i];
        if !c.is_ascii() || c == '.' || c == ' ' {
            continue;
        }
        let bit = if rng.chance(1, 2) { 5 } else { rng.below(7) as u32 };
        let d = char::from((c as u8) ^ (1u8 << bit));
        if !(d.is_ascii_alphanumeric() || OK.contains(d)) || d.eq_ignore_ascii_case(&c) {
            continue;
        }
        let mut v = chars.clone();
        v[i] = d;
        return Some(v.into_iter().collect());
    }
    None
}

pub struct Gen {
    pub rng: Rng,
    pub prof: Profile,
    pub names: Vec<String>,
    pub left: usize,
    pub fresh_session: bool,
    pub queue: std::collections::VecDeque<Op>,
}

impl Gen {
    pub fn new(seed: u64, prof: Profile) -> Self {
        let mut rng = Rng::new(seed);
        let n = rng.range(6, 14) as usize;
        let mut names: Vec<String> = vec![];
        for _ in 0..n {
            let r = rng.below(100);
            let s = if r < 80 {
                let mut cand = (*rng.pick(VALID_NAMES)).to_string();
                if prof.ascii_only && !cand.is_ascii() {
                    cand = format!("ascii {}", cand.len());
                }
                cand
            } else if r < 88 {
                long_name(rng.range(60, 140) as usize, 'L')
            } else if r < 94 {
                long_name(rng.range(240, 255) as usize, 'M')
            } else {
                long_name(255, 'N')
            };
            if !names.contains(&s) {
                names.push(s);
            }
        }
        // near-miss siblings: a pool name with one bit of one ASCII character flipped ('{' / '[', '~' / '^', 'a' / 'c',
        // '1' / '3' ...): distinct names that a sloppy comparison or hash would merge
        if rng.chance(1, 3) {
            let k = rng.range(1, 2);
            for _ in 0..k {
                let base = names[rng.usize_below(names.len())].clone();
                if let Some(s) = near_miss(&mut rng, &base) {
                    if !names.contains(&s) {
                        names.push(s);
                    }
                }
            }
        }
        // always a couple of plain directory-ish names so depth is reachable
        for s in ["dir", "sub", "x"] {
            if !names.iter().any(|n| n == s) {
                names.push(s.to_string());
            }
        }
        let left = prof.steps;
        Gen { rng, prof, names, left, fresh_session: false, queue: std::collections::VecDeque::new() }
    }

    fn mangle(&mut self, name: &str) -> String {
        match self.rng.below(10) {
            0 => name.to_uppercase(),
            1 => name.to_lowercase(),
            _ => name.to_string(),
        }
    }

    fn rel_path(&mut self, m: &Model, from: NodeId, to: NodeId) -> Option<String> {
        // ancestors of `from`
        let mut fa = vec![from];
        let mut c = from;
        while let Some(p) = m.nodes[c].parent {
            fa.push(p);
            c = p;
        }
        let mut down = vec![];
        let mut c = to;
        let lca = loop {
            if let Some(pos) = fa.iter().position(|x| *x == c) {
                break pos;
            }
            down.push(c);
            c = m.nodes[c].parent?;
        };
        let mut comps: Vec<String> = vec![];
        for _ in 0..lca {
            comps.push("..".into());
        }
        for n in down.iter().rev() {
            let nm = m.nodes[*n].name.clone();
            comps.push(self.mangle(&nm));
        }
        if comps.is_empty() {
            return None;
        }
        Some(self.decorate(comps))
    }

    fn decorate(&mut self, mut comps: Vec<String>) -> String {
        // occasionally a "." component in the middle (never first at the root, never last)
        if comps.len() >= 2 && self.rng.chance(1, 12) {
            let i = 1 + self.rng.usize_below(comps.len() - 1);
            comps.insert(i, ".".into());
        }
        let mut s = comps.join("/");
        match self.rng.below(24) {
            0 => s = format!("/{}", s),
            1 => s = format!("{}/", s),
            2 => s = s.replacen('/', "//", 1),
            _ => {}
        }
        s
    }

    fn leaf(&mut self) -> String {
        if self.rng.below(1000) < u64::from(self.prof.invalid_names) {
            match self.rng.below(10) {
                0 => String::new(),
                1 => long_name(256 + self.rng.usize_below(40), 'Z'),
                _ => {
                    let n = (*self.rng.pick(INVALID_NAMES)).to_string();
                    if self.prof.ascii_only && !n.is_ascii() {
                        "a:b".to_string()
                    } else {
                        n
                    }
                }
            }
        } else {
            let n = self.names[self.rng.usize_below(self.names.len())].clone();
            self.mangle(&n)
        }
    }

    fn pick_base(&mut self, h: &HandleView, c: u8) -> (u8, NodeId) {
        // own dir slots are 1+2c, 2+2c; slot 0 (root) is shared
        let mut cands: Vec<(u8, NodeId)> = vec![(0, ROOT)];
        for i in 0..h.dirs.len() {
            if let Some(n) = h.dirs[i] {
                if i != 0 {
                    cands.push((i as u8, n));
                }
            }
        }
        let _ = c;
        *self.rng.pick(&cands)
    }

    /// a path (relative to base) to a fresh or existing leaf inside some existing directory
    fn path_new(&mut self, m: &Model, base: NodeId) -> String {
        let dirs: Vec<NodeId> = m.dirs().into_iter().filter(|d| m.path_of(*d).len() < self.prof.max_depth).collect();
        let d = *self.rng.pick(&dirs);
        let leaf = self.leaf();
        if d == base {
            return self.decorate(vec![leaf]);
        }
        match self.rel_path(m, base, d) {
            Some(p) => format!("{}/{}", p.trim_end_matches('/'), leaf),
            None => leaf,
        }
    }

    fn path_existing(&mut self, m: &Model, base: NodeId, want_dir: Option<bool>) -> Option<String> {
        let all: Vec<NodeId> = m
            .live_nodes()
            .into_iter()
            .filter(|n| *n != ROOT && want_dir.map_or(true, |d| m.nodes[*n].is_dir == d))
            .collect();
        if all.is_empty() {
            return None;
        }
        let t = *self.rng.pick(&all);
        // sometimes address it through its alias
        if self.rng.chance(1, 10) {
            if let (Some(a), Some(p)) = (m.nodes[t].alias.clone(), m.nodes[t].parent) {
                if p == base {
                    return Some(a);
                }
                if let Some(pp) = self.rel_path(m, base, p) {
                    return Some(format!("{}/{}", pp.trim_end_matches('/'), a));
                }
            }
        }
        self.rel_path(m, base, t)
    }

    fn biased_len(&mut self, cluster: u64) -> u32 {
        let c = cluster.min(u64::from(self.prof.max_write)).max(1);
        let v = match self.rng.below(12) {
            0 => 0,
            1 => 1,
            2 => c - 1,
            3 => c,
            4 => c + 1,
            5 => 2 * c - 1,
            6 => 2 * c,
            7 => 2 * c + 1,
            8 => self.rng.below(4 * c + 2),
            9 => 3 * c + 1,
            _ => self.rng.below(64.min(c) + 1),
        };
        v.min(u64::from(self.prof.max_write)) as u32
    }

    fn stamp(&mut self) -> Stamp {
        match self.rng.below(8) {
            0 => MIN_STAMP,
            1 => MAX_STAMP,
            _ => Stamp::from_ticks(self.rng.below(MAX_STAMP.to_ticks() as u64) as i64),
        }
    }
}

impl StepSource for Gen {
    fn next(&mut self, w: &World, h: &HandleView) -> Option<Step> {
        if self.left == 0 {
            return None;
        }
        self.left -= 1;
        let p = self.prof.clone();
        let m = &w.model;
        if let Some(op) = self.queue.pop_front() {
            return Some(Step { c: 0, op, hard_at: None, sticky: false });
        }
        if self.fresh_session {
            self.fresh_session = false;
            let files: Vec<NodeId> = m.files().into_iter().filter(|n| !m.nodes[*n].content.is_empty()).collect();
            if !p.read_only && !files.is_empty() && self.rng.below(100) < u64::from(p.gambit_pct) {
                let n = *self.rng.pick(&files);
                let size = m.nodes[n].content.len() as u64;
                let cl = w.geo.cluster_bytes;
                let path = m.path_of(n).join("/");
                self.queue.push_back(Op::OpenFile { base: 0, path, slot: 0 });
                let pos = match self.rng.below(6) {
                    0 => 0,
                    1 => size,
                    2 => size - 1,
                    3 => (size - 1) / cl * cl + self.rng.below(((size - 1) % cl) + 1),
                    4 => (size / cl) * cl,
                    _ => self.rng.below(size + 1),
                };
                self.queue.push_back(Op::Seek { f: 0, whence: 0, off: pos as i64 });
                match self.rng.below(4) {
                    0 | 1 => self.queue.push_back(Op::Truncate { f: 0 }),
                    2 => {
                        let (len, fill) = (self.rng.range(1, 40) as u32, self.rng.next_u64());
                        self.queue.push_back(Op::Write { f: 0, len, fill });
                    }
                    _ => {
                        let (which, t) = (self.rng.below(3) as u8, self.stamp());
                        self.queue.push_back(Op::SetTime { f: 0, which, t });
                    }
                }
                if self.rng.chance(1, 2) {
                    self.queue.push_back(Op::Flush { f: 0 });
                }
                self.queue.push_back(Op::CloseFile { f: 0 });
                if self.rng.chance(1, 2) {
                    self.queue.push_back(Op::Checkpoint);
                }
                let op = self.queue.pop_front().unwrap();
                return Some(Step { c: 0, op, hard_at: None, sticky: false });
            }
        }
        let c = self.rng.below(u64::from(p.clients)) as u8;
        let cluster = w.geo.cluster_bytes;
        // slots owned by this client
        let fslots: Vec<u8> = (0..3).map(|i| c * 3 + i).collect();
        let dslots: Vec<u8> = (0..2).map(|i| 1 + c * 2 + i).collect();
        let open_f: Vec<u8> = fslots.iter().copied().filter(|s| h.files.get(*s as usize).map_or(false, |x| x.is_some())).collect();
        let free_f: Vec<u8> = fslots.iter().copied().filter(|s| !open_f.contains(s)).collect();
        let open_d: Vec<u8> = dslots.iter().copied().filter(|s| h.dirs.get(*s as usize).map_or(false, |x| x.is_some())).collect();
        let has_f = !open_f.is_empty();
        let weights: Vec<(u32, u8)> = vec![
            (p.w_create_file, 0),
            (p.w_create_dir, 1),
            (p.w_open_file, 2),
            (p.w_open_dir, 3),
            (p.w_list, 4),
            (p.w_remove, 5),
            (p.w_rename, 6),
            (if has_f { p.w_write } else { 0 }, 7),
            (if has_f { p.w_read } else { 0 }, 8),
            (if has_f { p.w_seek } else { 0 }, 9),
            (if has_f { p.w_truncate } else { 0 }, 10),
            (if has_f { p.w_flush } else { 0 }, 11),
            (if has_f || !open_d.is_empty() { p.w_close } else { 0 }, 12),
            (if has_f { p.w_settime } else { 0 }, 13),
            (p.w_stats, 14),
            (p.w_status, 15),
            (p.w_clock, 16),
            (p.w_checkpoint, 17),
            (p.w_remount, 18),
        ];
        let total: u32 = weights.iter().map(|x| x.0).sum();
        let mut r = self.rng.below(u64::from(total)) as u32;
        let mut kind = 0u8;
        for (wt, k) in &weights {
            if r < *wt {
                kind = *k;
                break;
            }
            r -= wt;
        }
        let (base, bnode) = self.pick_base(h, c);
        let keep_it = self.rng.below(1000) < u64::from(p.keep);
        let op = match kind {
            0 => {
                let path = if self.rng.chance(1, 6) { self.path_existing(m, bnode, Some(false)).unwrap_or_else(|| self.leaf()) } else { self.path_new(m, bnode) };
                let keep = if keep_it && !free_f.is_empty() { Some(*self.rng.pick(&free_f)) } else { None };
                Op::CreateFile { base, path, keep }
            }
            1 => {
                let path = if self.rng.chance(1, 8) { self.path_existing(m, bnode, Some(true)).unwrap_or_else(|| self.leaf()) } else { self.path_new(m, bnode) };
                let keep = if keep_it { Some(*self.rng.pick(&dslots)) } else { None };
                Op::CreateDir { base, path, keep }
            }
            2 => {
                let kindf = if self.rng.chance(7, 8) { Some(false) } else { None };
                let path = if self.rng.chance(5, 6) { self.path_existing(m, bnode, kindf) } else { None };
                let path = path.unwrap_or_else(|| self.path_new(m, bnode));
                if free_f.is_empty() {
                    Op::CloseFile { f: *self.rng.pick(&fslots) }
                } else {
                    Op::OpenFile { base, path, slot: *self.rng.pick(&free_f) }
                }
            }
            3 => {
                let kindd = if self.rng.chance(7, 8) { Some(true) } else { None };
                let path = if self.rng.chance(5, 6) { self.path_existing(m, bnode, kindd) } else { None };
                let mut path = path.unwrap_or_else(|| self.path_new(m, bnode));
                if self.rng.chance(1, 10) && bnode != ROOT {
                    path = format!("{}/..", path.trim_end_matches('/'));
                }
                Op::OpenDir { base, path, slot: *self.rng.pick(&dslots) }
            }
            4 => Op::List { base },
            5 => {
                let path = if self.rng.chance(9, 10) { self.path_existing(m, bnode, None) } else { None };
                Op::Remove { base, path: path.unwrap_or_else(|| self.path_new(m, bnode)) }
            }
            6 => {
                let spath = if self.rng.chance(9, 10) { self.path_existing(m, bnode, None) } else { None };
                let spath = spath.unwrap_or_else(|| self.path_new(m, bnode));
                let (dbase, dnode) = if self.rng.chance(1, 2) { (base, bnode) } else { self.pick_base(h, c) };
                let dpath = if self.rng.chance(1, 8) { self.path_existing(m, dnode, None).unwrap_or_else(|| self.leaf()) } else { self.path_new(m, dnode) };
                Op::Rename { sbase: base, spath, dbase, dpath }
            }
            7 => Op::Write { f: *self.rng.pick(&open_f), len: self.biased_len(cluster), fill: self.rng.next_u64() },
            8 => Op::Read { f: *self.rng.pick(&open_f), len: self.biased_len(cluster) },
            9 => {
                let f = *self.rng.pick(&open_f);
                let size = h.files[f as usize].map_or(0, |(n, _)| m.nodes[n].content.len() as i64);
                let c64 = cluster as i64;
                let k = self.rng.below(4) as i64;
                let delta = self.rng.range(0, 2) as i64 - 1;
                let (whence, off) = match self.rng.below(14) {
                    0 => (0, 0),
                    1 => (0, k * c64 + delta),
                    2 => (0, size),
                    3 => (0, size + 1 + self.rng.below(100) as i64),
                    4 => (0, self.rng.below(size.max(1) as u64) as i64),
                    5 => (1, -(self.rng.below(size.max(1) as u64 + 3) as i64)),
                    6 => (1, self.rng.below(2 * c64 as u64 + 2) as i64),
                    7 => (2, 0),
                    8 => (2, -(self.rng.below(size.max(1) as u64 + 3) as i64)),
                    9 => (2, 1 + self.rng.below(50) as i64),
                    10 => (0, i64::from(u32::MAX) + self.rng.below(3) as i64),
                    11 => (1, -(k * c64 + delta).abs()),
                    12 => (2, -(k * c64 + delta).abs()),
                    _ => (0, (k * c64 + delta).max(0)),
                };
                let off = if whence == 0 { off.max(0) } else { off };
                Op::Seek { f, whence, off }
            }
            10 => {
                let f = *self.rng.pick(&open_f);
                let size = h.files.get(f as usize).and_then(|x| x.as_ref()).map_or(0, |x| m.nodes[x.0].content.len() as u64);
                if size > 1 && self.rng.chance(1, 2) {
                    // cut somewhere inside the file (mostly on or next to a cluster boundary), not only at the cursor's
                    // usual places (0 after open, the end after a write)
                    let cl = cluster.max(1);
                    let pos = match self.rng.below(4) {
                        0 => self.rng.range(1, size - 1),
                        1 => ((self.rng.below(size / cl + 1)) * cl).clamp(1, size - 1),
                        2 => ((self.rng.below(size / cl + 1)) * cl + 1).clamp(1, size - 1),
                        _ => ((self.rng.below(size / cl + 1)) * cl).saturating_sub(1).clamp(1, size - 1),
                    };
                    self.queue.push_back(Op::Truncate { f });
                    Op::Seek { f, whence: 0, off: pos as i64 }
                } else {
                    Op::Truncate { f }
                }
            }
            11 => Op::Flush { f: *self.rng.pick(&open_f) },
            12 => {
                if has_f && (open_d.is_empty() || self.rng.chance(3, 4)) {
                    Op::CloseFile { f: *self.rng.pick(&open_f) }
                } else {
                    Op::CloseDir { d: *self.rng.pick(&open_d) }
                }
            }
            13 => Op::SetTime { f: *self.rng.pick(&open_f), which: self.rng.below(3) as u8, t: self.stamp() },
            14 => Op::Stats,
            15 => {
                if self.rng.chance(1, 2) {
                    Op::Status
                } else {
                    Op::Label
                }
            }
            16 => {
                let now = w.clock.get().to_ticks();
                let t = match self.rng.below(20) {
                    0 => MIN_STAMP.to_ticks(),
                    1 => MAX_STAMP.to_ticks(),
                    2 => now - self.rng.below(100 * 86400 * 30) as i64,
                    3 => now + self.rng.below(100 * 86400 * 400) as i64,
                    4 => now - self.rng.below(500) as i64,
                    _ => now + self.rng.below(301) as i64,
                };
                Op::Clock { t: Stamp::from_ticks(t) }
            }
            17 => Op::Checkpoint,
            _ => {
                self.fresh_session = true;
                Op::Remount { how: self.rng.below(3) as u8 }
            }
        };
        let hard_at = if p.hard_fault > 0 && self.rng.below(1000) < u64::from(p.hard_fault) { Some(self.rng.range(1, 40)) } else { None };
        Some(Step { c, op, hard_at, sticky: false })
    }
}
