//! C14: flushed file data survives a power cut. A seeded history is run once with the complete write
//! log (payloads + flush epochs); then, for every flush point and every later crash point, the image a
//! write-back cache that honours flush could have left behind is rebuilt, mounted and read.
use crate::disk::{DiskState, FaultPlan, LogMode, SimDisk, Store, WriteRec};
use crate::engine::{fs_options, guarded, read_all, viol, CrashLog, FlushPoint, Guarded};
use crate::exec;
use crate::gen::{Gen, Profile};
use crate::props;
use crate::rng::Rng;
use crate::runner::{Batch, RunOutcome};
use crate::types::*;
use serde_json::json;
use std::cell::RefCell;
use std::rc::Rc;

fn crash_image(start: &Store, writes: &[WriteRec], durable: usize, upto: usize, keep: &dyn Fn(usize) -> bool) -> Store {
    let mut img = start.clone();
    for (i, w) in writes[..upto].iter().enumerate() {
        if i < durable || keep(i) {
            img.write_at(w.off, &w.data);
        }
    }
    img
}

fn verify(img: Store, cfg: &RunCfg, fp: &FlushPoint) -> Result<(), (String, String)> {
    let st = Rc::new(RefCell::new(DiskState::new(img)));
    st.borrow_mut().log_mode = LogMode::Off;
    st.borrow_mut().arm(FaultPlan { budget: 5_000_000, ..Default::default() });
    let clock = crate::clock::SimClock::new(cfg.start);
    let mut c2 = cfg.clone();
    c2.access_date = false;
    let opts = fs_options(&c2, &clock);
    let path = fp.path.clone();
    let st2 = st.clone();
    let r = guarded(move || -> Result<Vec<u8>, (String, String)> {
        let fs = Fs::new(SimDisk::new(st2), opts).map_err(|e| ("remount-failed".to_string(), format!("{:?}", e)))?;
        let data = {
            let mut f = fs.root_dir().open_file(&path).map_err(|e| ("flushed-file-not-found".to_string(), format!("open_file({:?}) -> {:?}", path, e)))?;
            read_all(&mut f).map_err(|e| ("flushed-file-unreadable".to_string(), format!("{:?}", e)))?
        };
        drop(fs);
        Ok(data)
    });
    match r {
        Guarded::Done(Ok(data)) => {
            if data != fp.content {
                let first = data.iter().zip(fp.content.iter()).position(|(a, b)| a != b).unwrap_or(data.len().min(fp.content.len()));
                Err(("flushed-content-lost".into(), format!("{}: {} bytes after the crash, {} bytes were flushed; first difference at {}", fp.path, data.len(), fp.content.len(), first)))
            } else {
                Ok(())
            }
        }
        Guarded::Done(Err(e)) => Err(e),
        Guarded::Panic(m) => Err(("panic".into(), m)),
        Guarded::Hang => Err(("hang".into(), "remount / read of the crash image".into())),
    }
}

/// wraps the generator: some flush / close steps get a transient storage error injected, followed by a retry
pub struct FaultyFlush {
    pub g: Gen,
    pub rng: Rng,
    pub pending: Option<Step>,
    pub pct: u64,
    /// which operations get the transient error
    pub which: fn(&Op) -> bool,
    /// the error hits device call 1..=max_k of the operation
    pub max_k: u64,
    /// issue the same operation again afterwards
    pub retry: bool,
}

pub fn is_flush(op: &Op) -> bool {
    matches!(op, Op::Flush { .. })
}

/// calls that change the volume and report errors (closing a handle is excluded: a destructor cannot report)
pub fn is_mutating(op: &Op) -> bool {
    matches!(op, Op::Flush { .. } | Op::Write { .. } | Op::Truncate { .. } | Op::CreateFile { .. } | Op::CreateDir { .. } | Op::Remove { .. } | Op::Rename { .. })
}

impl crate::engine::StepSource for FaultyFlush {
    fn next(&mut self, w: &crate::engine::World, h: &crate::engine::HandleView) -> Option<Step> {
        if let Some(s) = self.pending.take() {
            return Some(s);
        }
        let mut s = self.g.next(w, h)?;
        if self.pct > 0 && (self.which)(&s.op) && self.rng.below(100) < self.pct {
            // transient error somewhere inside this flush, then the caller simply tries again
            let retry = Step { c: s.c, op: s.op.clone(), hard_at: None, sticky: false };
            s.hard_at = Some(self.rng.range(1, self.max_k));
            if self.retry {
                self.pending = Some(retry);
            }
        }
        Some(s)
    }
}

pub fn run(seed: u64, dense: bool) -> RunOutcome {
    run_mode(seed, dense, 0)
}

pub fn run_mode(seed: u64, dense: bool, fault_pct: u64) -> RunOutcome {
    run_full(seed, dense, fault_pct, false)
}

/// A prologue that puts a flushed file through the states where its entry, size and chain are rewritten
/// independently (shrunk to a prefix or to nothing, flushed, grown again, flushed), then lets other files
/// allocate, optionally in a new session; the seeded generator continues from there.
fn rewrite_prologue(r: &mut Rng, cl: u64, q: &mut std::collections::VecDeque<Op>) {
    let a = (*r.pick(&["victim.dat", "A long victim name.data", "V"])).to_string();
    let b = (*r.pick(&["other.bin", "Another long file name.bin", "O"])).to_string();
    let len = |r: &mut Rng| -> u32 {
        match r.below(4) {
            0 => r.range(1, cl) as u32,
            1 => cl as u32,
            2 => (cl + r.range(1, cl)) as u32,
            _ => r.range(1, 3 * cl) as u32,
        }
    };
    q.push_back(Op::CreateFile { base: 0, path: a.clone(), keep: Some(0) });
    let l0 = len(r);
    q.push_back(Op::Write { f: 0, len: l0, fill: r.next_u64() });
    if r.chance(1, 2) {
        q.push_back(Op::Flush { f: 0 });
    }
    q.push_back(Op::CloseFile { f: 0 });
    if r.chance(1, 2) {
        q.push_back(Op::CreateFile { base: 0, path: "filler".into(), keep: Some(1) });
        q.push_back(Op::Write { f: 1, len: len(r), fill: r.next_u64() });
        q.push_back(Op::CloseFile { f: 1 });
    }
    if r.chance(1, 3) {
        q.push_back(Op::Remount { how: r.below(2) as u8 });
    }
    q.push_back(Op::OpenFile { base: 0, path: a.clone(), slot: 0 });
    let pos = match r.below(4) {
        0 | 1 => 0,
        2 => (u64::from(l0) / cl) * cl,
        _ => r.below(u64::from(l0) + 1),
    };
    if pos > 0 {
        q.push_back(Op::Seek { f: 0, whence: 0, off: pos as i64 });
    }
    q.push_back(Op::Truncate { f: 0 });
    match r.below(3) {
        0 => q.push_back(Op::Flush { f: 0 }),
        1 => {
            q.push_back(Op::CloseFile { f: 0 });
            q.push_back(Op::OpenFile { base: 0, path: a.clone(), slot: 0 });
            if pos > 0 {
                q.push_back(Op::Seek { f: 0, whence: 2, off: 0 });
            }
        }
        _ => {}
    }
    q.push_back(Op::Write { f: 0, len: len(r), fill: r.next_u64() });
    q.push_back(if r.chance(1, 2) { Op::Flush { f: 0 } } else { Op::CloseFile { f: 0 } });
    if r.chance(2, 3) {
        q.push_back(Op::Remount { how: r.below(3) as u8 });
    }
    q.push_back(Op::CreateFile { base: 0, path: b, keep: Some(1) });
    q.push_back(Op::Write { f: 1, len: len(r), fill: r.next_u64() });
    q.push_back(Op::Flush { f: 1 });
}

pub fn run_full(seed: u64, dense: bool, fault_pct: u64, prologue: bool) -> RunOutcome {
    let mut r = Rng::new(seed);
    let mut fl = props::base_flavor("C14");
    fl.oracles = Oracles { crash_log: true, ..Default::default() };
    fl.fat_w = [5, 3, 2];
    fl.max_cluster_bytes = 8192;
    fl.ballast_pct = 30;
    let cfg = props::draw_cfg(&mut r, &fl);
    let mut prof = Profile::mixed();
    prof.steps = r.range(6, 40) as usize;
    prof.w_checkpoint = 0;
    // sessions end and the volume is mounted again (clean unmount, drop, or abandonment): the allocation hint is
    // lost on FAT12/16, so later allocations start from the low end of the table again
    prof.w_remount = if r.chance(1, 2) { 6 } else { 0 };
    prof.w_truncate = 8;
    prof.w_flush = 14;
    prof.w_close = 12;
    prof.w_write = 24;
    prof.invalid_names = 10;
    prof.max_write = 20_000;
    prof.clients = r.range(1, 3) as u8;
    if prologue {
        prof.steps += 24;
    }
    let mut g = FaultyFlush { g: Gen::new(r.next_u64(), prof), rng: Rng::new(seed ^ 0xFA17), pending: None, pct: fault_pct, which: is_flush, max_k: 12, retry: true };
    if prologue {
        let cl = u64::from(cfg.vol.spc) * u64::from(cfg.vol.bps);
        rewrite_prologue(&mut r, cl, &mut g.g.queue);
    }
    let base = exec::run(cfg.clone(), "C14", &mut g, 200);
    let mut o = RunOutcome::empty();
    o.evaluations = 0;
    o.stats = base.stats.clone();
    o.counters.insert("hard_errors_injected_in_flush".into(), base.stats.hard_faults);
    let mkrep = |v: &Violation| Replay { property: "C14".into(), kind: if prologue { "c14-rewrite".into() } else if fault_pct > 0 { "c14-faulty-flush".into() } else if dense { "c14-dense".into() } else { "c14".into() }, seed, cfg: cfg.clone(), steps: base.trace.clone(), violation: Some(v.clone()) };
    if let Some(v) = base.violation {
        o.violation = Some((v.clone(), mkrep(&v)));
        return o;
    }
    let cl: &CrashLog = &base.crash;
    let Some(start) = &cl.start else { return o };
    let n = cl.writes.len();
    let mut sample = vec![];
    for fp in &cl.flush_points {
        // tracked until the file (or an ancestor) is modified, renamed or removed
        let until = cl.untrack.iter().filter(|(w, node)| *node == fp.node && *w >= fp.widx).map(|(w, _)| *w).min().unwrap_or(n);
        let points: Vec<usize> = if dense || until - fp.widx <= 48 {
            (fp.widx..=until).collect()
        } else {
            let mut v = vec![fp.widx, fp.widx + 1, until];
            for _ in 0..45 {
                v.push(fp.widx + r.usize_below(until - fp.widx + 1));
            }
            v.sort_unstable();
            v.dedup();
            v
        };
        *o.counters.entry("flush_points".into()).or_insert(0) += 1;
        if sample.len() < 3 {
            sample.push(format!("flush point after step {} ({} bytes of {:?}), {} later device writes, {} crash points", fp.step, fp.content.len(), fp.path, until - fp.widx, points.len()));
        }
        for p in points {
            // epoch in force when the power fails right after write p-1
            let e = if p == 0 { 0 } else { cl.writes[p - 1].epoch.max(fp.epoch) };
            let e = if p == fp.widx { fp.epoch } else { e };
            let durable = cl.writes[..p].iter().position(|w| w.epoch >= e).unwrap_or(p);
            let unbarriered = p - durable;
            if p == fp.widx && unbarriered > 0 {
                *o.counters.entry("unbarriered_writes_at_flush_point".into()).or_insert(0) += unbarriered as u64;
            }
            let mut variants: Vec<(&str, Box<dyn Fn(usize) -> bool>)> = vec![("all-kept", Box::new(|_| true))];
            if unbarriered > 0 {
                variants.push(("all-unbarriered-lost", Box::new(|_| false)));
                let s1 = r.next_u64();
                variants.push(("random-subset-lost", Box::new(move |i| crate::rng::hash_bytes(s1, &i.to_le_bytes()) & 1 == 0)));
                let s2 = r.next_u64();
                variants.push(("random-quarter-lost", Box::new(move |i| crate::rng::hash_bytes(s2, &i.to_le_bytes()) & 3 != 0)));
                *o.counters.entry("crash_points_with_unbarriered_writes".into()).or_insert(0) += 1;
            }
            for (vname, keep) in variants {
                let img = crash_image(start, &cl.writes, durable, p, &*keep);
                o.evaluations += 1;
                o.distinct.push(crate::rng::hash_bytes(img.fingerprint(), fp.path.as_bytes()));
                *o.counters.entry(format!("crash_images:{}", vname)).or_insert(0) += 1;
                if let Err((class, detail)) = verify(img, &cfg, fp) {
                    let v = viol(
                        "C14",
                        &class,
                        format!("flush point after step {} ({:?}), power cut after device write {} of {} ({} durable, variant {}): {}", fp.step, base.trace[fp.step].op, p, n, durable, vname, detail),
                        fp.step,
                    );
                    o.violation = Some((v.clone(), mkrep(&v)));
                    return o;
                }
            }
        }
    }
    o.sample = Some(json!({"seed": seed, "config": props::cfg_summary(&cfg), "steps": base.trace.len(), "device_writes": n, "flush_points": sample}));
    o
}

pub fn replay(kind: &str, seed: u64) -> Option<RunOutcome> {
    match kind {
        "c14" => Some(run(seed, false)),
        "c14-dense" => Some(run(seed, true)),
        "c14-faulty-flush" => Some(run_mode(seed, false, 40)),
        "c14-rewrite" => Some(run_full(seed, false, 0, true)),
        _ => None,
    }
}

pub fn batches(tier: &str, seed: u64) -> Vec<Batch<'static>> {
    let (n1, n2) = if tier == "quick" { (3000u64, 600u64) } else { (150_000, 60_000) };
    let n3 = n1;
    vec![
        Batch { name: "transient storage error inside flush, caller retries: a flush that finally returns Ok is a flush point".into(), runs: n3, f: Box::new(move |i| run_mode(crate::rng::run_seed(seed, 43, i), false, 40)) },
        Batch { name: "prologue: flushed file shrunk / emptied, flushed, grown again, flushed; other files allocate (same or next session); then a seeded history".into(), runs: n1, f: Box::new(move |i| run_full(crate::rng::run_seed(seed, 44, i), false, 0, true)) },
        Batch { name: "histories with flush points, crash points sampled when > 48".into(), runs: n1, f: Box::new(move |i| run(crate::rng::run_seed(seed, 41, i), false)) },
        Batch { name: "histories with flush points, EVERY later crash point".into(), runs: n2, f: Box::new(move |i| run(crate::rng::run_seed(seed, 42, i), true)) },
    ]
}
