//! C19: build features change only what they document. The same concrete histories (generated once, in
//! the full build) are replayed in binaries compiled against the library without `alloc` (fixed long-name
//! buffer) and without `unicode`; final image fingerprints and observation traces are compared.
use crate::engine::ReplaySource;
use crate::exec;
use crate::gen::{Gen, Profile};
use crate::props;
use crate::rng::Rng;
use crate::runner::{self, Batch, RunOutcome};
use crate::types::*;
use serde::{Deserialize, Serialize};
use serde_json::json;

#[derive(Serialize, Deserialize)]
pub struct Case {
    pub cfg: RunCfg,
    pub steps: Vec<Step>,
}

#[derive(Serialize, Deserialize, Clone, Debug)]
pub struct CaseResult {
    pub fp: u64,
    pub obs: u64,
    pub violation: Option<Violation>,
}

pub fn replay_case(c: &Case) -> CaseResult {
    let mut src = ReplaySource { steps: c.steps.clone(), i: 0 };
    let r = exec::run(c.cfg.clone(), "C19", &mut src, c.steps.len() + 1);
    CaseResult { fp: r.final_fingerprint, obs: r.obs_hash, violation: r.violation }
}

/// child side
pub fn child_replay_batch(path: &str) {
    let txt = std::fs::read_to_string(path).expect("case file");
    let cases: Vec<Case> = serde_json::from_str(&txt).expect("case file json");
    let res: Vec<CaseResult> = cases.iter().map(replay_case).collect();
    println!("CHILD-RESULTS {}", serde_json::to_string(&res).unwrap());
}

fn run_child(tag: &str, file: &str) -> Result<Vec<CaseResult>, String> {
    let bin = runner::alt_bin(tag);
    let out = std::process::Command::new(&bin).args(["replay-batch", file]).env("VERIF_THREADS", "1").output().map_err(|e| format!("{}: {}", bin, e))?;
    let txt = String::from_utf8_lossy(&out.stdout);
    let line = txt.lines().rev().find(|l| l.starts_with("CHILD-RESULTS ")).ok_or_else(|| format!("{} printed no results (exit {:?})", bin, out.status.code()))?;
    serde_json::from_str(&line["CHILD-RESULTS ".len()..]).map_err(|e| e.to_string())
}

pub fn chunk(seed: u64, n: usize) -> RunOutcome {
    let mut o = RunOutcome::empty();
    o.evaluations = 0;
    let mut cases: Vec<Case> = vec![];
    let mut own: Vec<CaseResult> = vec![];
    let mut ascii: Vec<bool> = vec![];
    let harness = |class: &str, detail: String| {
        let v = Violation { property: "HARNESS".into(), class: class.into(), detail, step: 0 };
        (v.clone(), Replay { property: "HARNESS".into(), kind: "c19".into(), seed, cfg: crate::c06::dummy_cfg(), steps: vec![], violation: Some(v) })
    };
    for i in 0..n {
        let s = crate::rng::run_seed(seed, 91, i as u64);
        let mut r = Rng::new(s);
        let mut fl = props::base_flavor("C19");
        fl.oracles = Oracles { outcome: true, raw_tree: true, file_model: true, ..Default::default() };
        fl.max_cluster_bytes = 8192;
        let cfg = props::draw_cfg(&mut r, &fl);
        let mut prof = if r.chance(1, 2) { Profile::namespace() } else { Profile::mixed() };
        prof.steps = r.range(10, 50) as usize;
        prof.ascii_only = r.chance(1, 2);
        prof.max_write = 20_000;
        prof.clients = r.range(1, 3) as u8;
        ascii.push(prof.ascii_only);
        let mut g = Gen::new(r.next_u64(), prof);
        let res = exec::run(cfg.clone(), "C19", &mut g, 200);
        own.push(CaseResult { fp: res.final_fingerprint, obs: res.obs_hash, violation: res.violation.clone() });
        o.stats.steps += res.stats.steps;
        o.stats.lfn_straddle += res.stats.lfn_straddle;
        cases.push(Case { cfg, steps: res.trace });
    }
    let sim_dir = std::path::Path::new(&runner::alt_bin("x")).parent().and_then(|p| p.parent()).and_then(|p| p.parent()).map(|p| p.to_path_buf()).unwrap_or_default();
    let tmp = sim_dir.join("target").join("c19tmp");
    let _ = std::fs::create_dir_all(&tmp);
    let file = tmp.join(format!("cases-{}-{}.json", std::process::id(), seed));
    let file_s = file.to_string_lossy().to_string();
    if let Err(e) = std::fs::write(&file, serde_json::to_string(&cases).unwrap()) {
        o.violation = Some(harness("cannot-write-case-file", e.to_string()));
        return o;
    }
    let noalloc = run_child("noalloc", &file_s);
    let nouni = run_child("nounicode", &file_s);
    let _ = std::fs::remove_file(&file);
    let (noalloc, nouni) = match (noalloc, nouni) {
        (Ok(a), Ok(b)) => (a, b),
        (Err(e), _) | (_, Err(e)) => {
            o.violation = Some(harness("child-build-failed", e));
            return o;
        }
    };
    if noalloc.len() != n || nouni.len() != n {
        o.violation = Some(harness("child-result-count", format!("{} / {} of {}", noalloc.len(), nouni.len(), n)));
        return o;
    }
    for i in 0..n {
        o.evaluations += 3;
        o.distinct.push(own[i].obs ^ own[i].fp);
        let mk = |class: &str, detail: String| {
            let v = Violation { property: "C19".into(), class: class.into(), detail, step: 0 };
            (v.clone(), Replay { property: "C19".into(), kind: "c19-case".into(), seed, cfg: cases[i].cfg.clone(), steps: cases[i].steps.clone(), violation: Some(v) })
        };
        if let Some(v) = &own[i].violation {
            o.violation = Some(mk("violation-in-full-build", format!("{} {}: {}", v.property, v.class, v.detail)));
            return o;
        }
        if let Some(v) = &noalloc[i].violation {
            o.violation = Some(mk("violation-in-fixed-buffer-build", format!("{} {} step {}: {}", v.property, v.class, v.step, v.detail)));
            return o;
        }
        if let Some(v) = &nouni[i].violation {
            o.violation = Some(mk("violation-in-no-unicode-build", format!("{} {} step {}: {}", v.property, v.class, v.step, v.detail)));
            return o;
        }
        if noalloc[i].fp != own[i].fp || noalloc[i].obs != own[i].obs {
            o.violation = Some(mk(
                "alloc-vs-fixed-buffer-differ",
                format!("image fingerprint {:#x} vs {:#x}, observation hash {:#x} vs {:#x}", own[i].fp, noalloc[i].fp, own[i].obs, noalloc[i].obs),
            ));
            return o;
        }
        if ascii[i] {
            *o.counters.entry("ascii_only_histories".into()).or_insert(0) += 1;
            if nouni[i].fp != own[i].fp || nouni[i].obs != own[i].obs {
                o.violation = Some(mk(
                    "unicode-vs-no-unicode-differ-on-ascii-names",
                    format!("image fingerprint {:#x} vs {:#x}, observation hash {:#x} vs {:#x}", own[i].fp, nouni[i].fp, own[i].obs, nouni[i].obs),
                ));
                return o;
            }
        } else {
            *o.counters.entry("non_ascii_histories".into()).or_insert(0) += 1;
            if nouni[i].fp != own[i].fp || nouni[i].obs != own[i].obs {
                *o.counters.entry("non_ascii_histories_where_no_unicode_build_differs(allowed: case-insensitive matching of non-ASCII)".into()).or_insert(0) += 1;
            }
        }
    }
    o.sample = Some(json!({"seed": seed, "cases": n, "first_case": {"config": props::cfg_summary(&cases[0].cfg), "steps": cases[0].steps.len(), "history": cases[0].steps.iter().take(8).map(|s| format!("{:?}", s.op)).collect::<Vec<_>>()}}));
    o
}

/// replay of one case in all three builds
pub fn replay(rep: &Replay) -> Option<RunOutcome> {
    if rep.kind != "c19-case" {
        return None;
    }
    let mut o = RunOutcome::empty();
    let case = Case { cfg: rep.cfg.clone(), steps: rep.steps.clone() };
    let own = replay_case(&case);
    let sim_dir = std::path::Path::new(&runner::alt_bin("x")).parent().and_then(|p| p.parent()).and_then(|p| p.parent()).map(|p| p.to_path_buf()).unwrap_or_default();
    let tmp = sim_dir.join("target").join("c19tmp");
    let _ = std::fs::create_dir_all(&tmp);
    let file = tmp.join(format!("replay-{}.json", std::process::id()));
    let _ = std::fs::write(&file, serde_json::to_string(&vec![case]).unwrap());
    let a = run_child("noalloc", &file.to_string_lossy());
    let b = run_child("nounicode", &file.to_string_lossy());
    let _ = std::fs::remove_file(&file);
    let mut bad: Option<String> = None;
    if let Some(v) = &own.violation {
        bad = Some(format!("full build: {} {}", v.class, v.detail));
    }
    match (a, b) {
        (Ok(a), Ok(b)) => {
            if let Some(v) = &a[0].violation {
                bad = Some(format!("fixed-buffer build: {} {}", v.class, v.detail));
            } else if a[0].fp != own.fp || a[0].obs != own.obs {
                bad = Some("alloc and fixed-buffer builds differ".into());
            }
            if let Some(v) = &b[0].violation {
                bad = Some(format!("no-unicode build: {} {}", v.class, v.detail));
            } else if (b[0].fp != own.fp || b[0].obs != own.obs) && rep.violation.as_ref().map_or(false, |v| v.class.contains("ascii")) {
                bad = Some("unicode and no-unicode builds differ on an ASCII-only history".into());
            }
        }
        (Err(e), _) | (_, Err(e)) => bad = Some(format!("child: {}", e)),
    }
    if let Some(d) = bad {
        let v = Violation { property: "C19".into(), class: rep.violation.as_ref().map_or("differ".into(), |v| v.class.clone()), detail: d, step: 0 };
        o.violation = Some((v.clone(), rep.clone()));
    }
    Some(o)
}

pub fn batches(tier: &str, seed: u64) -> Vec<Batch<'static>> {
    let (chunks, per) = if tier == "quick" { (240u64, 80usize) } else { (12_000, 100) };
    vec![Batch {
        name: "the same concrete histories replayed in three builds (std+alloc+lfn+unicode, std+lfn+unicode, std+alloc+lfn)".into(),
        runs: chunks,
        f: Box::new(move |i| chunk(crate::rng::run_seed(seed, 92, i), per)),
    }]
}
