//! Batch runner: seeded runs on a worker pool (results merged in run-index order so output does not
//! depend on thread timing), minimisation, replay files, known findings, evidence.
use crate::engine::{ReplaySource, RunStats};
use crate::exec;
use crate::types::*;
use serde::{Deserialize, Serialize};
use serde_json::{json, Value};
use std::collections::{BTreeMap, BTreeSet};
use std::sync::atomic::{AtomicU64, Ordering};
use std::sync::Mutex;
use std::time::Instant;

pub struct RunOutcome {
    pub violation: Option<(Violation, Replay)>,
    pub stats: RunStats,
    /// free-form per-run numbers merged by summation into the evidence ("probe" counters)
    pub counters: BTreeMap<String, u64>,
    /// hashes of distinct non-trivial cases seen in the run
    pub distinct: Vec<u64>,
    pub sample: Option<Value>,
    pub evaluations: u64,
}

impl RunOutcome {
    pub fn empty() -> Self {
        RunOutcome { violation: None, stats: RunStats::default(), counters: BTreeMap::new(), distinct: vec![], sample: None, evaluations: 1 }
    }
}

pub fn threads() -> usize {
    std::env::var("VERIF_THREADS").ok().and_then(|s| s.parse().ok()).unwrap_or(16)
}

/// Run f(0..n) on the worker pool; results come back indexed.
pub fn par_map<T: Send>(n: u64, f: &(dyn Fn(u64) -> T + Sync)) -> Vec<T> {
    let next = AtomicU64::new(0);
    let out: Mutex<Vec<(u64, T)>> = Mutex::new(Vec::with_capacity(n as usize));
    let nt = threads().min(n.max(1) as usize);
    std::thread::scope(|sc| {
        for _ in 0..nt {
            sc.spawn(|| {
                let mut local: Vec<(u64, T)> = vec![];
                loop {
                    let i = next.fetch_add(1, Ordering::Relaxed);
                    if i >= n {
                        break;
                    }
                    local.push((i, f(i)));
                }
                out.lock().unwrap().extend(local);
            });
        }
    });
    let mut v = out.into_inner().unwrap();
    v.sort_by_key(|x| x.0);
    v.into_iter().map(|x| x.1).collect()
}

#[derive(Clone, Debug, Serialize, Deserialize)]
pub struct KnownFinding {
    pub id: String,
    /// "known" (still present, reported as KNOWN-FINDING) or "fixed" (suppresses nothing)
    pub status: String,
    pub property: String,
    #[serde(default)]
    pub class: String,
    /// substring that must occur in the violation detail (the specific trigger)
    #[serde(default)]
    pub trigger: String,
    #[serde(default)]
    pub commit: String,
    pub what: String,
}

pub fn load_known() -> Vec<KnownFinding> {
    let p = format!("{}/known_findings.json", verif_dir());
    match std::fs::read_to_string(&p) {
        Ok(s) => match serde_json::from_str::<Value>(&s) {
            Ok(v) => serde_json::from_value(v["findings"].clone()).unwrap_or_default(),
            Err(e) => {
                eprintln!("harness: cannot parse {}: {}", p, e);
                std::process::exit(2);
            }
        },
        Err(_) => vec![],
    }
}

pub fn verif_dir() -> String {
    std::env::var("VERIF_DIR").unwrap_or_else(|_| "/verif".to_string())
}

pub struct Batch<'a> {
    pub name: String,
    pub runs: u64,
    pub f: Box<dyn Fn(u64) -> RunOutcome + Sync + 'a>,
}

pub struct CheckReport {
    pub property: String,
    pub tier: String,
    pub seed: u64,
    pub level: String,
    pub rule: String,
    pub exhaustive: bool,
    pub components: Value,
    pub assumptions: Vec<String>,
}

/// the sets of distinct hashes stop growing here (the evidence then says so)
pub const DISTINCT_CAP: usize = 6_000_000;

#[derive(Default)]
pub struct Agg {
    pub distinct_capped: bool,
    pub runs: u64,
    pub evaluations: u64,
    pub stats: RunStats,
    pub counters: BTreeMap<String, u64>,
    pub distinct: BTreeSet<u64>,
    pub states: BTreeSet<u64>,
    pub interleavings: BTreeSet<u64>,
    pub samples: Vec<Value>,
    pub violations: Vec<(Violation, Replay)>,
    pub per_batch: Vec<Value>,
}

fn add_stats(a: &mut RunStats, b: &RunStats) {
    a.steps += b.steps;
    a.ops_ok += b.ops_ok;
    a.ops_err += b.ops_err;
    a.device_calls += b.device_calls;
    a.sessions += b.sessions;
    a.checkpoints += b.checkpoints;
    a.nospace_seen += b.nospace_seen;
    a.root_full_seen += b.root_full_seen;
    a.dir_grew += b.dir_grew;
    a.lfn_straddle += b.lfn_straddle;
    a.write_cross_cluster += b.write_cross_cluster;
    a.alloc_wrapped += b.alloc_wrapped;
    a.multi_handle_steps += b.multi_handle_steps;
    a.fail_atomic_checked += b.fail_atomic_checked;
    a.audited_writes += b.audited_writes;
    a.clock_back += b.clock_back;
    a.alias_hash_form += b.alias_hash_form;
    a.model_diverged += b.model_diverged;
    a.unmount_crash_images += b.unmount_crash_images;
    a.unmount_faults += b.unmount_faults;
    a.reclaim_after_retry_checked += b.reclaim_after_retry_checked;
    a.alias_tail_form += b.alias_tail_form;
    a.hard_faults += b.hard_faults;
    a.clock_span_s += b.clock_span_s;
    a.fired.hard += b.fired.hard;
    a.fired.eintr += b.fired.eintr;
    a.fired.short_read += b.fired.short_read;
    a.fired.short_write += b.fired.short_write;
    a.fired.eof_reads += b.fired.eof_reads;
    a.fired.full_writes += b.fired.full_writes;
    a.fired.budget_overruns += b.fired.budget_overruns;
}

pub fn run_batches(batches: Vec<Batch>, agg: &mut Agg) {
    for b in batches {
        let t0 = Instant::now();
        // a panic of the harness itself must surface as a harness error (exit 2), never as an abort or a VIOLATION
        let bf = &*b.f;
        let guarded_f = move |i: u64| -> RunOutcome {
            match std::panic::catch_unwind(std::panic::AssertUnwindSafe(|| bf(i))) {
                Ok(o) => o,
                Err(p) => {
                    let msg = p.downcast_ref::<String>().cloned().or_else(|| p.downcast_ref::<&str>().map(|s| s.to_string())).unwrap_or_else(|| "<non-string panic>".into());
                    let mut o = RunOutcome::empty();
                    let v = Violation { property: "HARNESS".into(), class: "harness-panic".into(), detail: format!("run {} of this batch: {}", i, msg), step: 0 };
                    o.violation = Some((v.clone(), Replay { property: "HARNESS".into(), kind: "harness".into(), seed: i, cfg: crate::c06::dummy_cfg(), steps: vec![], violation: Some(v) }));
                    o
                }
            }
        };
        let mut nviol = 0;
        // chunks keep memory bounded in the thorough tiers; results are still merged in run-index order
        const CHUNK: u64 = 20_000;
        let mut base = 0u64;
        while base < b.runs {
            let n = CHUNK.min(b.runs - base);
            let shifted = |i: u64| guarded_f(base + i);
            let outs = par_map(n, &shifted);
            for (i, o) in outs.into_iter().enumerate() {
                let i = i + base as usize;
                agg.runs += 1;
                agg.evaluations += o.evaluations;
                add_stats(&mut agg.stats, &o.stats);
                if agg.states.len() < DISTINCT_CAP {
                    for h in &o.stats.state_hashes {
                        agg.states.insert(*h);
                    }
                } else {
                    agg.distinct_capped = true;
                }
                if o.stats.steps > 0 && agg.interleavings.len() < DISTINCT_CAP {
                    agg.interleavings.insert(o.stats.interleave_hash);
                }
                for (k, v) in o.counters {
                    *agg.counters.entry(k).or_insert(0) += v;
                }
                if agg.distinct.len() < DISTINCT_CAP {
                    agg.distinct.extend(o.distinct);
                } else {
                    agg.distinct_capped = true;
                }
                if let Some(s) = o.sample {
                    if agg.samples.len() < 6 && (i < 2 || agg.samples.len() < 3) {
                        agg.samples.push(s);
                    }
                }
                if let Some(v) = o.violation {
                    nviol += 1;
                    if agg.violations.len() < 50 {
                        agg.violations.push(v);
                    }
                }
            }
            base += n;
        }
        agg.per_batch.push(json!({"batch": b.name, "runs": b.runs, "wall_s": t0.elapsed().as_secs_f64(), "violations": nviol}));
    }
}

/// Shrink the step list of a failing engine replay while the same violation (property + class) persists.
pub fn minimise(rep: &Replay) -> Replay {
    let Some(v0) = rep.violation.clone() else { return rep.clone() };
    let fails = |steps: &[Step]| -> Option<Violation> {
        let mut src = ReplaySource { steps: steps.to_vec(), i: 0 };
        let r = exec::run(rep.cfg.clone(), &rep.property, &mut src, steps.len() + 1);
        match r.violation {
            Some(v) if v.property == v0.property && v.class == v0.class => Some(v),
            _ => None,
        }
    };
    let mut steps = rep.steps.clone();
    // the run stops at the violating step: drop everything after it
    if v0.step + 1 < steps.len() {
        let cut = steps[..=v0.step].to_vec();
        if fails(&cut).is_some() {
            steps = cut;
        }
    }
    let mut budget = 600;
    let mut chunk = (steps.len() / 2).max(1);
    while chunk >= 1 && budget > 0 {
        let mut i = 0;
        let mut changed = false;
        while i < steps.len() && budget > 0 {
            let end = (i + chunk).min(steps.len());
            let mut cand = steps[..i].to_vec();
            cand.extend_from_slice(&steps[end..]);
            budget -= 1;
            if !cand.is_empty() && fails(&cand).is_some() {
                steps = cand;
                changed = true;
            } else {
                i += chunk;
            }
        }
        if chunk == 1 && !changed {
            break;
        }
        if chunk > 1 {
            chunk /= 2;
        }
    }
    // drop faults that are not needed
    for i in 0..steps.len() {
        if steps[i].hard_at.is_some() {
            let mut cand = steps.clone();
            cand[i].hard_at = None;
            if fails(&cand).is_some() {
                steps = cand;
            }
        }
    }
    let v = fails(&steps);
    Replay { steps, violation: v.or(Some(v0)), ..rep.clone() }
}

pub fn replay_engine(rep: &Replay) -> Option<Violation> {
    let mut src = ReplaySource { steps: rep.steps.clone(), i: 0 };
    let r = exec::run(rep.cfg.clone(), &rep.property, &mut src, rep.steps.len() + 1);
    r.violation
}

pub fn stats_json(s: &RunStats) -> Value {
    json!({
        "api_calls": s.steps, "ok": s.ops_ok, "err": s.ops_err, "device_calls": s.device_calls, "sessions": s.sessions,
        "checkpoints": s.checkpoints,
        "probes": {
            "not_enough_space_reported": s.nospace_seen, "fixed_root_full": s.root_full_seen, "directory_grew": s.dir_grew,
            "lfn_run_straddles_cluster": s.lfn_straddle, "write_crossed_cluster": s.write_cross_cluster,
            "steps_with_several_handles_alive": s.multi_handle_steps, "failed_calls_checked_for_atomicity": s.fail_atomic_checked,
            "device_writes_audited": s.audited_writes, "clock_moved_backwards": s.clock_back, "runs_stopped_because_library_and_model_diverged(outcome oracle not enabled)": s.model_diverged, "crash_images_remounted(power cut inside unmount or inside a call, C05)": s.unmount_crash_images, "unmount_calls_failed_by_an_injected_error(then completed by the destructor)": s.unmount_faults, "removes_failed_before_touching_the_table_then_repeated(chain must be released)": s.reclaim_after_retry_checked, "aliases_in_hash_form(max per run, summed)": s.alias_hash_form, "aliases_in_numeric_tail_form(max per run, summed)": s.alias_tail_form
        },
        "faults_fired": {
            "hard_error": s.fired.hard, "eintr": s.fired.eintr, "short_read": s.fired.short_read, "short_write": s.fired.short_write,
            "read_at_device_end": s.fired.eof_reads, "write_at_device_end": s.fired.full_writes, "budget_overrun": s.fired.budget_overruns
        },
        "simulated_clock_span_s": s.clock_span_s
    })
}

/// Finish a check: minimise and persist violations, print the protocol lines, write evidence. Returns exit code.
pub fn finish(rep: CheckReport, agg: Agg, t0: Instant, extra: Value) -> i32 {
    let known = load_known();
    let dir = verif_dir();
    let mut code = 0;
    let mut reported: BTreeSet<String> = BTreeSet::new();
    let mut nviol = 0;
    let mut known_hits: BTreeSet<String> = BTreeSet::new();
    for (v, r) in &agg.violations {
        if v.property == "HARNESS" {
            eprintln!("harness error: {} {}", v.class, v.detail);
            return 2;
        }
        if let Some(k) = known.iter().find(|k| k.status == "known" && k.property == v.property && (k.class.is_empty() || k.class == v.class) && (k.trigger.is_empty() || v.detail.contains(&k.trigger))) {
            known_hits.insert(format!("KNOWN-FINDING: property={} {} [{}]", k.property, k.what, k.id));
            continue;
        }
        let key = format!("{}:{}", v.property, v.class);
        if !reported.insert(key) {
            continue;
        }
        nviol += 1;
        let min = if r.kind == "engine" { minimise(r) } else { r.clone() };
        let path = format!("{}/replays/{}-{}-{}.json", dir, v.property, v.class, r.seed);
        let _ = std::fs::create_dir_all(format!("{}/replays", dir));
        std::fs::write(&path, serde_json::to_string_pretty(&min).unwrap()).expect("write replay");
        let mv = min.violation.clone().unwrap_or(v.clone());
        println!("VIOLATION property={} replay={}", mv.property, path);
        println!("  class={} step={} detail={}", mv.class, mv.step, mv.detail);
        println!("  seed={} steps={} (minimised from {})", r.seed, min.steps.len(), r.steps.len());
        code = 1;
    }
    for k in known_hits {
        println!("{}", k);
    }
    let wall = t0.elapsed().as_secs_f64();
    let distinct = agg.distinct.len().max(agg.states.len());
    let mut coverage = json!({
        "evaluations": agg.evaluations.max(1),
        "distinct_nontrivial": distinct,
        "rule": rep.rule,
        "samples": agg.samples,
        "exhaustive": rep.exhaustive,
        "distinct_counting_capped": agg.distinct_capped,
        "simulated_runs": agg.runs,
        "runs_per_hour": (agg.runs as f64 / wall.max(1e-9) * 3600.0) as u64,
        "seeds_per_hour": (agg.runs as f64 / wall.max(1e-9) * 3600.0) as u64,
        "distinct_abstract_states": agg.states.len(),
        "distinct_client_interleavings": agg.interleavings.len(),
        "totals": stats_json(&agg.stats),
        "counters": agg.counters,
        "batches": agg.per_batch,
        "components": rep.components,
    });
    if let (Value::Object(c), Value::Object(e)) = (&mut coverage, extra) {
        for (k, v) in e {
            c.insert(k, v);
        }
    }
    let ev = json!({
        "property_id": rep.property,
        "tier": rep.tier,
        "seed": rep.seed,
        "level": rep.level,
        "coverage": coverage,
        "assumptions": rep.assumptions,
        "wall_s": wall,
        "violations": nviol,
    });
    let _ = std::fs::create_dir_all(format!("{}/evidence", dir));
    std::fs::write(format!("{}/evidence/{}.json", dir, rep.property), serde_json::to_string_pretty(&ev).unwrap()).expect("write evidence");
    println!(
        "{} tier={} seed={} runs={} evaluations={} distinct={} violations={} wall={:.1}s",
        rep.property, rep.tier, rep.seed, agg.runs, agg.evaluations, distinct, nviol, wall
    );
    code
}

pub fn components() -> Value {
    json!({
        "real_code": ["fatfs::fs", "fatfs::dir", "fatfs::dir_entry", "fatfs::file", "fatfs::table", "fatfs::boot_sector", "fatfs::io (read_exact/write_all)", "fatfs::error", "fatfs::time (encode/decode)"],
        "simulated": ["block device (SimDisk)", "clock (SimClock)", "OEM code page converter (SimOcc)"],
        "not_exercised": ["StdIoWrapper", "ChronoTimeProvider / chrono conversions", "log back end"]
    })
}

/// Run the same batches in a binary compiled with another feature set (C17 fixed-buffer build, C19) and fold
/// its summary into one RunOutcome. `sub` is the child's sub-command.
pub fn child_outcome(bin: &str, args: &[String], tag: &str) -> RunOutcome {
    let mut o = RunOutcome::empty();
    o.evaluations = 0;
    let out = std::process::Command::new(bin).args(args).output();
    let out = match out {
        Ok(o) => o,
        Err(e) => {
            let v = Violation { property: "HARNESS".into(), class: "child-binary-missing".into(), detail: format!("{}: {}", bin, e), step: 0 };
            o.violation = Some((v.clone(), Replay { property: "HARNESS".into(), kind: "child".into(), seed: 0, cfg: crate::c06::dummy_cfg(), steps: vec![], violation: Some(v) }));
            return o;
        }
    };
    let txt = String::from_utf8_lossy(&out.stdout);
    let line = txt.lines().rev().find(|l| l.starts_with("CHILD-SUMMARY "));
    let Some(line) = line else {
        let v = Violation { property: "HARNESS".into(), class: "child-output-unreadable".into(), detail: format!("{} exited with {:?}: {}", bin, out.status.code(), txt.chars().take(400).collect::<String>()), step: 0 };
        o.violation = Some((v.clone(), Replay { property: "HARNESS".into(), kind: "child".into(), seed: 0, cfg: crate::c06::dummy_cfg(), steps: vec![], violation: Some(v) }));
        return o;
    };
    let v: Value = serde_json::from_str(&line["CHILD-SUMMARY ".len()..]).unwrap_or(Value::Null);
    o.evaluations = v["evaluations"].as_u64().unwrap_or(0);
    o.counters.insert(format!("{}:evaluations", tag), o.evaluations);
    o.counters.insert(format!("{}:distinct", tag), v["distinct"].as_u64().unwrap_or(0));
    o.counters.insert(format!("{}:runs", tag), v["runs"].as_u64().unwrap_or(0));
    if let Some(c) = v["counters"].as_object() {
        for (k, x) in c {
            o.counters.insert(format!("{}:{}", tag, k), x.as_u64().unwrap_or(0));
        }
    }
    if let Some(arr) = v["violations"].as_array() {
        if let Some(first) = arr.first() {
            let viol: Violation = serde_json::from_value(first["violation"].clone()).unwrap_or(Violation { property: "HARNESS".into(), class: "child-violation-unreadable".into(), detail: first.to_string(), step: 0 });
            let mut rep: Replay = serde_json::from_value(first["replay"].clone()).unwrap_or(Replay { property: viol.property.clone(), kind: "child".into(), seed: 0, cfg: crate::c06::dummy_cfg(), steps: vec![], violation: Some(viol.clone()) });
            rep.kind = format!("{}@{}", rep.kind, tag);
            let mut viol = viol;
            viol.detail = format!("[{} build] {}", tag, viol.detail);
            rep.violation = Some(viol.clone());
            o.violation = Some((viol, rep));
        }
    }
    o
}

/// child side: run batches, print the summary line
pub fn child_main(batches: Vec<Batch>) {
    let mut agg = Agg::default();
    run_batches(batches, &mut agg);
    let viols: Vec<Value> = agg.violations.iter().take(3).map(|(v, r)| json!({"violation": v, "replay": r})).collect();
    let distinct = agg.distinct.len().max(agg.states.len());
    println!("CHILD-SUMMARY {}", json!({"evaluations": agg.evaluations, "distinct": distinct, "runs": agg.runs, "counters": agg.counters, "violations": viols}));
}

pub fn alt_bin(tag: &str) -> String {
    // sibling target directory of the running binary: <sim>/target/release/fatsim -> <sim>/target-<tag>/release/fatsim
    let exe = std::env::current_exe().unwrap_or_default();
    let sim = exe.parent().and_then(|p| p.parent()).and_then(|p| p.parent()).map(|p| p.to_path_buf()).unwrap_or_default();
    sim.join(format!("target-{}", tag)).join("release").join("fatsim").to_string_lossy().to_string()
}
