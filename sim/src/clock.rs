//! SimClock: the only clock the library reads. Constant during an API call, moved by the scheduler
//! between calls (forwards, backwards, to the edges of the representable range).
use fatfs::{Date, DateTime, Time, TimeProvider};
use std::cell::{Cell, RefCell};
use std::rc::Rc;

#[derive(Clone, Copy, Debug, PartialEq, Eq, PartialOrd, Ord, serde::Serialize, serde::Deserialize)]
pub struct Stamp {
    pub y: u16,
    pub mo: u16,
    pub d: u16,
    pub h: u16,
    pub mi: u16,
    pub s: u16,
    pub ms: u16,
}

pub const MIN_STAMP: Stamp = Stamp { y: 1980, mo: 1, d: 1, h: 0, mi: 0, s: 0, ms: 0 };
pub const MAX_STAMP: Stamp = Stamp { y: 2107, mo: 12, d: 31, h: 23, mi: 59, s: 59, ms: 990 };

pub fn days_in_month(y: u16, m: u16) -> u16 {
    match m {
        1 | 3 | 5 | 7 | 8 | 10 | 12 => 31,
        4 | 6 | 9 | 11 => 30,
        _ => {
            if (y % 4 == 0 && y % 100 != 0) || y % 400 == 0 {
                29
            } else {
                28
            }
        }
    }
}

impl Stamp {
    pub fn to_fat(self) -> DateTime {
        DateTime::new(Date::new(self.y, self.mo, self.d), Time::new(self.h, self.mi, self.s, self.ms))
    }
    pub fn date(self) -> (u16, u16, u16) {
        (self.y, self.mo, self.d)
    }
    /// 10-ms ticks since 1980-01-01 (calendar-correct)
    pub fn to_ticks(self) -> i64 {
        let mut days: i64 = 0;
        for y in 1980..self.y {
            days += if days_in_month(y, 2) == 29 { 366 } else { 365 };
        }
        for m in 1..self.mo {
            days += i64::from(days_in_month(self.y, m));
        }
        days += i64::from(self.d) - 1;
        (((days * 24 + i64::from(self.h)) * 60 + i64::from(self.mi)) * 60 + i64::from(self.s)) * 100
            + i64::from(self.ms / 10)
    }
    pub fn from_ticks(t: i64) -> Stamp {
        let lo = MIN_STAMP.to_ticks();
        let hi = MAX_STAMP.to_ticks();
        let mut t = t.clamp(lo, hi);
        let ms = ((t % 100) * 10) as u16;
        t /= 100;
        let s = (t % 60) as u16;
        t /= 60;
        let mi = (t % 60) as u16;
        t /= 60;
        let h = (t % 24) as u16;
        t /= 24;
        let mut days = t;
        let mut y = 1980u16;
        loop {
            let yl = if days_in_month(y, 2) == 29 { 366 } else { 365 };
            if days >= yl {
                days -= yl;
                y += 1;
            } else {
                break;
            }
        }
        let mut mo = 1u16;
        loop {
            let ml = i64::from(days_in_month(y, mo));
            if days >= ml {
                days -= ml;
                mo += 1;
            } else {
                break;
            }
        }
        Stamp { y, mo, d: days as u16 + 1, h, mi, s, ms }
    }
}

#[derive(Clone)]
pub struct SimClock {
    pub now: Rc<Cell<Stamp>>,
    pub queries: Rc<Cell<u64>>,
    pub min_seen: Rc<RefCell<Option<(Stamp, Stamp)>>>,
}

impl SimClock {
    pub fn new(start: Stamp) -> Self {
        SimClock { now: Rc::new(Cell::new(start)), queries: Rc::new(Cell::new(0)), min_seen: Rc::new(RefCell::new(None)) }
    }
    pub fn set(&self, s: Stamp) {
        self.now.set(s);
        let mut m = self.min_seen.borrow_mut();
        *m = Some(match *m {
            None => (s, s),
            Some((lo, hi)) => (lo.min(s), hi.max(s)),
        });
    }
    pub fn get(&self) -> Stamp {
        self.now.get()
    }
    /// simulated span covered so far, in seconds
    pub fn span_s(&self) -> i64 {
        match *self.min_seen.borrow() {
            None => 0,
            Some((lo, hi)) => (hi.to_ticks() - lo.to_ticks()) / 100,
        }
    }
}

impl core::fmt::Debug for SimClock {
    fn fmt(&self, f: &mut core::fmt::Formatter<'_>) -> core::fmt::Result {
        write!(f, "SimClock({:?})", self.now.get())
    }
}

impl TimeProvider for SimClock {
    fn get_current_date(&self) -> Date {
        self.queries.set(self.queries.get() + 1);
        let s = self.now.get();
        Date::new(s.y, s.mo, s.d)
    }
    fn get_current_date_time(&self) -> DateTime {
        self.queries.set(self.queries.get() + 1);
        self.now.get().to_fat()
    }
}
