use std::cell::RefCell;
use std::panic::{catch_unwind, AssertUnwindSafe};
use std::rc::Rc;

use fatfs::{FatType, FormatVolumeOptions, FsOptions, IoBase, IoError, Read, Seek, SeekFrom, Write};

#[derive(Debug, Clone, PartialEq)]
pub enum DErr {
    Injected(u64),
    Eof,
    WriteZero,
    Intr,
    Budget,
}
impl IoError for DErr {
    fn is_interrupted(&self) -> bool {
        matches!(self, DErr::Intr)
    }
    fn new_unexpected_eof_error() -> Self {
        DErr::Eof
    }
    fn new_write_zero_error() -> Self {
        DErr::WriteZero
    }
}

#[derive(Default)]
pub struct St {
    pub data: Vec<u8>,
    pub calls: u64,
    pub fail_at: Option<u64>, // fail the k-th call (1-based), any kind
    pub fail_reads_only: bool,
    pub short_write: Option<usize>, // max bytes per write
    pub writes: Vec<(u64, usize)>,
    pub budget: u64,
    pub log: bool,
}
#[derive(Clone)]
pub struct Disk {
    st: Rc<RefCell<St>>,
    pos: u64,
}
impl Disk {
    fn new(size: usize) -> Self {
        Disk {
            st: Rc::new(RefCell::new(St {
                data: vec![0u8; size],
                budget: u64::MAX,
                ..Default::default()
            })),
            pos: 0,
        }
    }
    fn tick(&self, is_read: bool) -> Result<(), DErr> {
        let mut s = self.st.borrow_mut();
        s.calls += 1;
        if s.calls > s.budget {
            panic!("BUDGET EXCEEDED (hang)");
        }
        if let Some(k) = s.fail_at {
            if s.calls == k && (!s.fail_reads_only || is_read) {
                return Err(DErr::Injected(k));
            }
        }
        Ok(())
    }
}
impl IoBase for Disk {
    type Error = DErr;
}
impl Read for Disk {
    fn read(&mut self, buf: &mut [u8]) -> Result<usize, DErr> {
        self.tick(true)?;
        let s = self.st.borrow();
        let p = self.pos as usize;
        if p >= s.data.len() {
            return Ok(0);
        }
        let n = buf.len().min(s.data.len() - p);
        buf[..n].copy_from_slice(&s.data[p..p + n]);
        drop(s);
        self.pos += n as u64;
        Ok(n)
    }
}
impl Write for Disk {
    fn write(&mut self, buf: &[u8]) -> Result<usize, DErr> {
        self.tick(false)?;
        let mut s = self.st.borrow_mut();
        let p = self.pos as usize;
        if p >= s.data.len() {
            return Ok(0);
        }
        let mut n = buf.len().min(s.data.len() - p);
        if let Some(m) = s.short_write {
            n = n.min(m);
        }
        s.data[p..p + n].copy_from_slice(&buf[..n]);
        s.writes.push((p as u64, n));
        if s.log {
            println!("   W {:#x}+{}", p, n);
        }
        drop(s);
        self.pos += n as u64;
        Ok(n)
    }
    fn flush(&mut self) -> Result<(), DErr> {
        self.tick(false)?;
        Ok(())
    }
}
impl Seek for Disk {
    fn seek(&mut self, pos: SeekFrom) -> Result<u64, DErr> {
        self.tick(false)?;
        let len = self.st.borrow().data.len() as i64;
        let np = match pos {
            SeekFrom::Start(x) => x as i64,
            SeekFrom::End(x) => len + x,
            SeekFrom::Current(x) => self.pos as i64 + x,
        };
        if np < 0 {
            return Err(DErr::Injected(0));
        }
        self.pos = np as u64;
        Ok(self.pos)
    }
}

type Fs = fatfs::FileSystem<Disk, fatfs::NullTimeProvider, fatfs::LossyOemCpConverter>;
fn opts() -> FsOptions<fatfs::NullTimeProvider, fatfs::LossyOemCpConverter> {
    FsOptions::new().time_provider(fatfs::NullTimeProvider::new())
}

fn mk(size: usize, o: FormatVolumeOptions) -> Disk {
    let mut d = Disk::new(size);
    fatfs::format_volume(&mut d, o).expect("format");
    d.pos = 0;
    d
}
fn mount(d: &Disk) -> Fs {
    let mut d2 = d.clone();
    d2.pos = 0;
    Fs::new(d2, opts()).expect("mount")
}
fn ls(fs: &Fs, path: &str) -> Vec<String> {
    let root = fs.root_dir();
    let dir = if path.is_empty() { root } else { root.open_dir(path).unwrap() };
    dir.iter().map(|e| e.map(|e| e.file_name()).unwrap_or_else(|e| format!("ERR {:?}", e))).collect()
}

fn t<F: FnOnce()>(name: &str, f: F) {
    println!("=== {}", name);
    let r = catch_unwind(AssertUnwindSafe(f));
    if let Err(e) = r {
        let msg = e.downcast_ref::<String>().cloned().or_else(|| e.downcast_ref::<&str>().map(|s| s.to_string()));
        println!("   PANIC: {:?}", msg);
    }
}

fn main() {
    std::panic::set_hook(Box::new(|_| {}));
    let small = || mk(512 * 200, FormatVolumeOptions::new().max_root_dir_entries(16));

    t("1 create_dir invalid name leaks cluster", || {
        let d = small();
        let fs = mount(&d);
        let before = fs.stats().unwrap().free_clusters();
        let r = fs.root_dir().create_dir("a:b");
        println!("   result {:?}", r.err());
        let after = fs.stats().unwrap().free_clusters();
        println!("   free before {} after {}", before, after);
    });
    t("2 rename to invalid name", || {
        let d = small();
        let fs = mount(&d);
        fs.root_dir().create_file("src.txt").unwrap();
        let r = fs.root_dir().rename("src.txt", &fs.root_dir(), "a:b");
        println!("   result {:?}; ls {:?}", r.err(), ls(&fs, ""));
    });
    t("3a create_file empty name", || {
        let d = small();
        let fs = mount(&d);
        let r = fs.root_dir().create_file("");
        println!("   result {:?}", r.err());
    });
    t("3b create_file non-ascii first", || {
        let d = small();
        let fs = mount(&d);
        let r = fs.root_dir().create_file("éa.txt");
        println!("   result {:?}", r.err());
    });
    t("3c open_file empty name / slash", || {
        let d = small();
        let fs = mount(&d);
        println!("   open '' {:?}", fs.root_dir().open_file("").err());
        println!("   open '/' {:?}", fs.root_dir().open_dir("/").err());
        println!("   create_dir '/' {:?}", fs.root_dir().create_dir("/").err());
    });
    t("3d create '.' and '..' in root", || {
        let d = small();
        let fs = mount(&d);
        println!("   create_file '.' {:?}", fs.root_dir().create_file(".").err());
        println!("   ls {:?}", ls(&fs, ""));
        println!("   create_dir '..' {:?}", fs.root_dir().create_dir("..").err());
        println!("   ls {:?}", ls(&fs, ""));
    });
    t("4 full fixed root (16 entries)", || {
        let d = small();
        let fs = mount(&d);
        for i in 0..20 {
            let name = format!("file-with-long-name-{}.txt", i);
            let r = fs.root_dir().create_file(&name);
            if let Err(e) = r {
                println!("   create #{} -> {:?}", i, e);
                break;
            }
        }
        println!("   ls {:?}", ls(&fs, ""));
        let st = d.st.borrow();
        // dump root dir first bytes of each slot
        // root at: reserved(1)+fats*spf
        let bps = 512usize;
        let spf = u16::from_le_bytes([st.data[22], st.data[23]]) as usize;
        let root = (1 + 2 * spf) * bps;
        let slots: Vec<String> = (0..16).map(|i| format!("{:02x}/{:02x}", st.data[root + i * 32], st.data[root + i * 32 + 11])).collect();
        println!("   slots {:?}", slots);
    });
    t("5 read error while freeing chain (remove)", || {
        let d = mk(512 * 400, FormatVolumeOptions::new());
        let fs = mount(&d);
        {
            let mut f = fs.root_dir().create_file("big").unwrap();
            f.write_all(&vec![7u8; 512 * 10]).unwrap();
        }
        // find number of calls for a clean remove on a clone
        let base = d.st.borrow().calls;
        {
            let mut s = d.st.borrow_mut();
            s.budget = base + 100000;
        }
        let mut found = vec![];
        for k in 1..200u64 {
            // fresh copy per k
            let d2 = Disk::new(0);
            {
                let s = d.st.borrow();
                let mut s2 = d2.st.borrow_mut();
                s2.data = s.data.clone();
                s2.budget = 200000;
            }
            let fs2 = mount(&d2);
            let c0 = d2.st.borrow().calls;
            d2.st.borrow_mut().fail_at = Some(c0 + k);
            let r = catch_unwind(AssertUnwindSafe(|| fs2.root_dir().remove("big")));
            let fired = d2.st.borrow().calls >= c0 + k;
            match r {
                Ok(Ok(())) => {
                    if fired {
                        found.push(format!("k={} SWALLOWED(Ok)", k));
                    } else {
                        break;
                    }
                }
                Ok(Err(fatfs::Error::Io(_))) => {}
                Ok(Err(e)) => found.push(format!("k={} MASKED {:?}", k, e)),
                Err(_) => found.push(format!("k={} PANIC/HANG", k)),
            }
            d2.st.borrow_mut().fail_at = None;
            d2.st.borrow_mut().budget = u64::MAX;
            std::mem::forget(fs2);
        }
        println!("   anomalies: {:?}", found);
    });
    t("6 read error during hinted alloc scan", || {
        let d = mk(512 * 400, FormatVolumeOptions::new());
        let mut found = vec![];
        for k in 1..400u64 {
            let d2 = Disk::new(0);
            {
                let s = d.st.borrow();
                let mut s2 = d2.st.borrow_mut();
                s2.data = s.data.clone();
                s2.budget = 200000;
            }
            let fs2 = mount(&d2);
            {
                let mut f = fs2.root_dir().create_file("a").unwrap();
                f.write_all(&[1u8; 600]).unwrap();
            }
            let c0 = d2.st.borrow().calls;
            d2.st.borrow_mut().fail_at = Some(c0 + k);
            let r = catch_unwind(AssertUnwindSafe(|| {
                let mut f = fs2.root_dir().create_file("b")?;
                f.write_all(&[2u8; 600])?;
                f.flush()?;
                Ok::<(), fatfs::Error<DErr>>(())
            }));
            let fired = d2.st.borrow().calls >= c0 + k;
            match r {
                Ok(Ok(())) => {
                    if fired {
                        found.push(format!("k={} SWALLOWED(Ok)", k));
                    }
                }
                Ok(Err(fatfs::Error::Io(_))) => {}
                Ok(Err(e)) => found.push(format!("k={} MASKED {:?}", k, e)),
                Err(_) => found.push(format!("k={} PANIC/HANG", k)),
            }
            d2.st.borrow_mut().fail_at = None;
            d2.st.borrow_mut().budget = u64::MAX;
            std::mem::forget(fs2);
        }
        println!("   anomalies: {:?}", found);
    });
    t("7 short writes as first write of session", || {
        let d = small();
        let boot_before = d.st.borrow().data[..512].to_vec();
        d.st.borrow_mut().short_write = Some(1);
        d.st.borrow_mut().log = false;
        let fs = mount(&d);
        let r = fs.root_dir().create_dir("hello-long-name.txt").map(|_| ());
        println!("   result {:?}", r.err());
        drop(fs);
        let s = d.st.borrow();
        let diffs: Vec<usize> = (0..512).filter(|&i| s.data[i] != boot_before[i]).collect();
        println!("   boot sector bytes changed at {:?}", diffs);
        drop(s);
        d.st.borrow_mut().short_write = None;
        let r = catch_unwind(AssertUnwindSafe(|| {
            let mut d2 = d.clone();
            d2.pos = 0;
            Fs::new(d2, opts()).map(|fs| ls(&fs, ""))
        }));
        println!("   remount ls {:?}", r.map_err(|_| "panic"));
    });
    t("8 move dir: stale dotdot", || {
        let d = small();
        let fs = mount(&d);
        let root = fs.root_dir();
        root.create_dir("a").unwrap();
        root.create_dir("b").unwrap();
        root.create_dir("a/sub").unwrap();
        root.create_file("b/marker").unwrap();
        root.rename("a/sub", &root, "b/sub").unwrap();
        println!("   b/sub/.. lists {:?} (expected b's: [., .., marker, sub])", ls(&fs, "b/sub/.."));
    });
    t("9 move dir into own child", || {
        let d = small();
        let fs = mount(&d);
        let root = fs.root_dir();
        root.create_dir("a").unwrap();
        root.create_dir("a/sub").unwrap();
        let free0 = fs.stats().unwrap().free_clusters();
        let r = root.rename("a", &root, "a/sub/x");
        println!("   result {:?} root ls {:?} free {}->{}", r.err(), ls(&fs, ""), free0, fs.stats().unwrap().free_clusters());
    });
    t("10 rename case only / onto self", || {
        let d = small();
        let fs = mount(&d);
        let root = fs.root_dir();
        root.create_file("abc.txt").unwrap();
        println!("   rename abc.txt->ABC.TXT {:?} ls {:?}", root.rename("abc.txt", &root, "ABC.TXT").err(), ls(&fs, ""));
        println!("   rename abc.txt->abc.txt {:?} ls {:?}", root.rename("abc.txt", &root, "abc.txt").err(), ls(&fs, ""));
    });
    t("11 mount with overflowing geometry (fat32 fats*spf)", || {
        let d = mk(40 * 1024 * 1024, FormatVolumeOptions::new().fat_type(FatType::Fat32));
        {
            let mut s = d.st.borrow_mut();
            s.data[16] = 255; // fats
            s.data[36..40].copy_from_slice(&0x0200_0000u32.to_le_bytes()); // sectors per fat 32
        }
        let mut d2 = d.clone();
        d2.pos = 0;
        let r = Fs::new(d2, opts());
        println!("   mount result {:?}", r.map(|fs| (fs.fat_type(), fs.stats().map(|s| s.total_clusters()))).map_err(|e| format!("{:?}", e)));
    });
    t("12 crafted 20-slot LFN with 260 units", || {
        let d = mk(512 * 400, FormatVolumeOptions::new());
        let fs = mount(&d);
        let long: String = std::iter::repeat('x').take(255).collect();
        fs.root_dir().create_file(&long).unwrap();
        drop(fs);
        // patch: find root dir, LFN slots: replace padding 0x0000/0xFFFF by 'y'
        {
            let mut s = d.st.borrow_mut();
            let spf = u16::from_le_bytes([s.data[22], s.data[23]]) as usize;
            let root = (1 + 2 * spf) * 512;
            // first slot (order 0x40|20) holds last 8 chars + 0 + pad
            let slot = root;
            println!("   first slot order {:#x}", s.data[slot]);
            let offs = [1usize, 3, 5, 7, 9, 14, 16, 18, 20, 22, 24, 28, 30];
            for o in offs {
                s.data[slot + o] = b'y';
                s.data[slot + o + 1] = 0;
            }
        }
        let fs = mount(&d);
        for e in fs.root_dir().iter() {
            let e = e.unwrap();
            println!("   name units {:?} short {:?}", e.long_file_name_as_ucs2_units().map(|u| u.len()), e.short_file_name());
        }
    });
    t("13 truncate/seek boundaries", || {
        let d = mk(512 * 400, FormatVolumeOptions::new());
        let fs = mount(&d);
        let mut f = fs.root_dir().create_file("f").unwrap();
        f.write_all(&vec![1u8; 1024]).unwrap();
        println!("   seek end+10 -> {:?}", f.seek(SeekFrom::End(10)));
        println!("   seek -1 -> {:?}", f.seek(SeekFrom::Current(-2000)).err());
        f.seek(SeekFrom::Start(512)).unwrap();
        f.truncate().unwrap();
        f.seek(SeekFrom::Start(0)).unwrap();
        let mut buf = vec![0u8; 2000];
        let mut n = 0;
        loop {
            let k = f.read(&mut buf[n..]).unwrap();
            if k == 0 {
                break;
            }
            n += k;
        }
        println!("   after truncate at 512 read {}", n);
    });
}
