use fatfs::*;
use std::panic::{catch_unwind, AssertUnwindSafe};
fn main() {
    std::panic::set_hook(Box::new(|_| {}));
    let mut img = vec![0u8; 40 * 1024 * 1024];
    {
        let mut c = StdIoWrapper::new(std::io::Cursor::new(&mut img[..]));
        format_volume(&mut c, FormatVolumeOptions::new().fat_type(FatType::Fat32)).unwrap();
    }
    for rc in [0u32, 1, 2, 3, 0x0FFF_FFF0, 0xFFFF_FFFF, 90000] {
        let mut im = img.clone();
        im[44..48].copy_from_slice(&rc.to_le_bytes());
        let r = catch_unwind(AssertUnwindSafe(|| {
            let c = StdIoWrapper::new(std::io::Cursor::new(&mut im[..]));
            match FileSystem::new(c, FsOptions::new()) {
                Err(e) => format!("mount err {:?}", e),
                Ok(fs) => {
                    let tc = fs.stats().unwrap().total_clusters();
                    let l = catch_unwind(AssertUnwindSafe(|| fs.root_dir().iter().map(|e| e.map(|e| e.file_name()).map_err(|e| format!("{:?}", e))).collect::<Vec<_>>()));
                    format!("mounted total_clusters {} ls {:?}", tc, l.map_err(|_| "PANIC"))
                }
            }
        }));
        println!("root_cluster={:#x}: {:?}", rc, r.map_err(|_| "PANIC"));
    }
}
