use fatfs::*;
use std::collections::BTreeSet;
fn main() {
    let mut img = vec![0u8; 4 * 1024 * 1024];
    { let mut c = StdIoWrapper::new(std::io::Cursor::new(&mut img[..])); format_volume(&mut c, FormatVolumeOptions::new()).unwrap(); }
    let c = StdIoWrapper::new(std::io::Cursor::new(&mut img[..]));
    let fs = FileSystem::new(c, FsOptions::new()).unwrap();
    let d = fs.root_dir().create_dir("d").unwrap();
    let t0 = std::time::Instant::now();
    let mut n = 0;
    for i in 0..400 { let name = format!("collide-prefix {:04}.text", i); d.create_file(&name).unwrap(); n += 1; if i % 7 == 3 { d.remove(&format!("collide-prefix {:04}.text", i - 2)).unwrap(); n -= 1; } }
    for i in 0..60 { d.create_file(&format!("co{}", "x".repeat(i + 1))).unwrap(); n += 1; }
    for nm in ["a b", "a.b.c", "...", " .", "~1", "+", "COLLID~1.TEX", "collid~5.tex"] { match d.create_file(nm) { Ok(_) => n += 1, Err(e) => println!("create {:?} -> {:?}", nm, e) } }
    let mut shorts = BTreeSet::new(); let mut cnt = 0; let mut bad = vec![];
    for e in d.iter() { let e = e.unwrap(); let s = e.short_file_name_as_bytes().to_vec(); if s == b"." || s == b".." { continue; } cnt += 1;
        let legal = s.iter().all(|&b| b.is_ascii_uppercase() || b.is_ascii_digit() || b"!#$%&'()-@^_`{}~.".contains(&b)) && s[0] != b'.' ;
        if !legal { bad.push(String::from_utf8_lossy(&s).to_string()); }
        if !shorts.insert(s.clone()) { println!("DUPLICATE alias {:?} for {}", String::from_utf8_lossy(&s), e.file_name()); } }
    println!("entries {} (expected {}), distinct aliases {}, illegal {:?}, time {:?}", cnt, n, shorts.len(), bad, t0.elapsed());
    let v: Vec<String> = shorts.iter().take(3).chain(shorts.iter().rev().take(12)).map(|s| String::from_utf8_lossy(s).to_string()).collect(); println!("{:?}", v);
}
