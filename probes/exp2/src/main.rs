use fatfs::*;
use std::panic::{catch_unwind, AssertUnwindSafe};

#[derive(Debug)]
struct E(u8);
impl IoError for E {
    fn is_interrupted(&self) -> bool { false }
    fn new_unexpected_eof_error() -> Self { E(1) }
    fn new_write_zero_error() -> Self { E(2) }
}
// device that records first 512 bytes and fails any access beyond
struct Probe { buf: [u8; 512], pos: u64, size: u64 }
impl IoBase for Probe { type Error = E; }
impl Read for Probe { fn read(&mut self, _b: &mut [u8]) -> Result<usize, E> { Err(E(9)) } }
impl Write for Probe {
    fn write(&mut self, b: &[u8]) -> Result<usize, E> {
        let p = self.pos as usize;
        if p + b.len() > 512 { return Err(E(7)); }
        self.buf[p..p + b.len()].copy_from_slice(b);
        self.pos += b.len() as u64;
        Ok(b.len())
    }
    fn flush(&mut self) -> Result<(), E> { Ok(()) }
}
impl Seek for Probe {
    fn seek(&mut self, s: SeekFrom) -> Result<u64, E> {
        match s {
            SeekFrom::Start(x) => { if x >= 512 { return Err(E(8)); } self.pos = x; }
            SeekFrom::Current(0) => {}
            SeekFrom::End(0) => { self.pos = self.size; }
            _ => return Err(E(6)),
        }
        Ok(self.pos)
    }
}
fn probe(total: u32, opts: FormatVolumeOptions) -> Result<[u8;512], String> {
    let mut p = Probe { buf: [0; 512], pos: 0, size: 0 };
    let r = catch_unwind(AssertUnwindSafe(|| format_volume(&mut p, opts.total_sectors(total))));
    match r {
        Err(_) => Err("PANIC".into()),
        Ok(Err(Error::Io(E(7)))) | Ok(Err(Error::Io(E(8)))) => Ok(p.buf),
        Ok(Err(e)) => Err(format!("{:?}", e)),
        Ok(Ok(())) => Err("unexpected ok".into()),
    }
}
fn main() {
    std::panic::set_hook(Box::new(|_| {}));
    let t0 = std::time::Instant::now();
    let mut fails: Vec<(u32, String)> = vec![];
    let mut n = 0u64;
    let mut last = String::new();
    let mut check = |ts: u32, fails: &mut Vec<(u32,String)>| {
        n += 1;
        match probe(ts, FormatVolumeOptions::new()) {
            Ok(b) => {
                let spc = b[13]; let spf16 = u16::from_le_bytes([b[22], b[23]]);
                let key = format!("spc{} fat32={}", spc, spf16 == 0);
                if key != last { println!("ts={} -> {}", ts, key); last = key; }
            }
            Err(e) => { if fails.len() < 40 || e == "PANIC" { fails.push((ts, e)); } }
        }
    };
    for ts in 1..300_000u32 { check(ts, &mut fails); }
    let mut ts = 300_000u64;
    while ts < u32::MAX as u64 { for d in 0..3u64 { check((ts + d) as u32, &mut fails); } ts += ts / 997 + 1; }
    // boundaries around power-of-two sizes
    for sh in 10..32u32 { let b = 1u64 << sh; for d in -70i64..70 { let v = b as i64 + d; if v > 0 && v <= u32::MAX as i64 { check(v as u32, &mut fails); } } }
    check(u32::MAX, &mut fails);
    println!("probed {} sizes in {:?}", n, t0.elapsed());
    println!("failures (first 40): {:?}", &fails[..fails.len().min(60)]);
    println!("n failures recorded {}", fails.len());
}
