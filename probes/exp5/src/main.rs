// scratch probe: random file-I/O differential test + raw-image side checks
use fatfs::*;
use std::cell::RefCell;
use std::panic::{catch_unwind, AssertUnwindSafe};
use std::rc::Rc;

#[derive(Debug)]
struct E;
impl IoError for E {
    fn is_interrupted(&self) -> bool { false }
    fn new_unexpected_eof_error() -> Self { E }
    fn new_write_zero_error() -> Self { E }
}
#[derive(Default)]
struct St { data: Vec<u8>, writes: u64, flushes: u64, unflushed: u64 }
#[derive(Clone)]
struct Disk { st: Rc<RefCell<St>>, pos: u64 }
impl IoBase for Disk { type Error = E; }
impl Read for Disk {
    fn read(&mut self, b: &mut [u8]) -> Result<usize, E> {
        let s = self.st.borrow(); let p = self.pos as usize;
        if p >= s.data.len() { return Ok(0); }
        let n = b.len().min(s.data.len() - p); b[..n].copy_from_slice(&s.data[p..p + n]); drop(s);
        self.pos += n as u64; Ok(n)
    }
}
impl Write for Disk {
    fn write(&mut self, b: &[u8]) -> Result<usize, E> {
        let mut s = self.st.borrow_mut(); let p = self.pos as usize;
        if p >= s.data.len() { return Ok(0); }
        let n = b.len().min(s.data.len() - p); s.data[p..p + n].copy_from_slice(&b[..n]);
        s.writes += 1; s.unflushed += 1; drop(s); self.pos += n as u64; Ok(n)
    }
    fn flush(&mut self) -> Result<(), E> { let mut s = self.st.borrow_mut(); s.flushes += 1; s.unflushed = 0; Ok(()) }
}
impl Seek for Disk {
    fn seek(&mut self, p: SeekFrom) -> Result<u64, E> {
        let len = self.st.borrow().data.len() as i64;
        let np = match p { SeekFrom::Start(x) => x as i64, SeekFrom::End(x) => len + x, SeekFrom::Current(x) => self.pos as i64 + x };
        if np < 0 { return Err(E); } self.pos = np as u64; Ok(self.pos)
    }
}
type Fs = FileSystem<Disk, NullTimeProvider, LossyOemCpConverter>;
fn opts() -> FsOptions<NullTimeProvider, LossyOemCpConverter> { FsOptions::new().time_provider(NullTimeProvider::new()) }

struct Rng(u64);
impl Rng { fn next(&mut self) -> u64 { self.0 = self.0.wrapping_add(0x9E3779B97F4A7C15); let mut z = self.0; z = (z ^ (z >> 30)).wrapping_mul(0xBF58476D1CE4E5B9); z = (z ^ (z >> 27)).wrapping_mul(0x94D049BB133111EB); z ^ (z >> 31) }
           fn below(&mut self, n: u64) -> u64 { self.next() % n } }

struct Geo { bps: usize, spc: usize, rsvd: usize, fats: usize, spf: usize, root_secs: usize, clusters: usize, bits: u32, fat32: bool }
fn geo(d: &[u8]) -> Geo {
    let bps = u16::from_le_bytes([d[11], d[12]]) as usize; let spc = d[13] as usize; let rsvd = u16::from_le_bytes([d[14], d[15]]) as usize;
    let fats = d[16] as usize; let root_ents = u16::from_le_bytes([d[17], d[18]]) as usize;
    let ts16 = u16::from_le_bytes([d[19], d[20]]) as usize; let spf16 = u16::from_le_bytes([d[22], d[23]]) as usize;
    let ts32 = u32::from_le_bytes([d[32], d[33], d[34], d[35]]) as usize; let spf32 = u32::from_le_bytes([d[36], d[37], d[38], d[39]]) as usize;
    let spf = if spf16 != 0 { spf16 } else { spf32 }; let ts = if ts16 != 0 { ts16 } else { ts32 };
    let root_secs = (root_ents * 32 + bps - 1) / bps; let data = ts - rsvd - fats * spf - root_secs; let clusters = data / spc;
    let bits = if clusters < 4085 { 12 } else if clusters < 65525 { 16 } else { 32 };
    Geo { bps, spc, rsvd, fats, spf, root_secs, clusters, bits, fat32: spf16 == 0 }
}
fn fat_get(d: &[u8], g: &Geo, copy: usize, c: usize) -> u32 {
    let base = (g.rsvd + copy * g.spf) * g.bps;
    match g.bits { 12 => { let o = base + c + c / 2; let v = u16::from_le_bytes([d[o], d[o + 1]]); (if c & 1 == 0 { v & 0xFFF } else { v >> 4 }) as u32 }
                   16 => { let o = base + c * 2; u16::from_le_bytes([d[o], d[o + 1]]) as u32 }
                   _ => { let o = base + c * 4; u32::from_le_bytes([d[o], d[o + 1], d[o + 2], d[o + 3]]) & 0x0FFF_FFFF } }
}
fn raw_free(d: &[u8], g: &Geo) -> u32 { (2..g.clusters + 2).filter(|&c| fat_get(d, g, 0, c) == 0).count() as u32 }
fn fats_equal(d: &[u8], g: &Geo) -> bool { let sz = g.spf * g.bps; let b = g.rsvd * g.bps; (1..g.fats).all(|i| d[b..b + sz] == d[b + i * sz..b + (i + 1) * sz]) }
fn status(d: &[u8], g: &Geo) -> u8 { if g.fat32 { d[0x41] } else { d[0x25] } }


use std::collections::BTreeMap;
#[derive(Clone, Debug, PartialEq)]
enum Node { File(Vec<u8>), Dir(BTreeMap<String, (String, Node)>) } // key = folded name, value = (display name, node)
fn fold(s: &str) -> String { s.chars().flat_map(|c| c.to_uppercase()).collect() }
fn get_dir<'a>(root: &'a mut BTreeMap<String, (String, Node)>, path: &[String]) -> Option<&'a mut BTreeMap<String, (String, Node)>> {
    let mut cur = root;
    for p in path { match cur.get_mut(&fold(p)) { Some((_, Node::Dir(d))) => cur = d, _ => return None } }
    Some(cur)
}
type D<'a> = Dir<'a, Disk, NullTimeProvider, LossyOemCpConverter>;
fn list(dir: &D, depth: usize) -> Result<BTreeMap<String, (String, Node)>, String> {
    let mut out = BTreeMap::new();
    if depth > 8 { return Err("too deep".into()); }
    for e in dir.iter() { let e = e.map_err(|e| format!("iter {:?}", e))?; let name = e.file_name(); if name == "." || name == ".." { continue; }
        let node = if e.is_dir() { Node::Dir(list(&e.to_dir(), depth + 1)?) } else { let mut f = e.to_file(); let mut got = vec![]; let mut b = [0u8; 900]; loop { let n = f.read(&mut b).map_err(|e| format!("read {:?}", e))?; if n == 0 { break; } got.extend_from_slice(&b[..n]); }
            if got.len() as u64 != e.len() { return Err(format!("{}: len {} but read {}", name, e.len(), got.len())); } Node::File(got) };
        if out.insert(fold(&name), (name.clone(), node)).is_some() { return Err(format!("duplicate name {}", name)); } }
    Ok(out)
}
fn rm_all(root: &D, prefix: &str, m: &BTreeMap<String, (String, Node)>) -> Result<(), String> { for (_, (n, node)) in m { let p = if prefix.is_empty() { n.clone() } else { format!("{}/{}", prefix, n) }; if let Node::Dir(c) = node { rm_all(root, &p, c)?; } root.remove(&p).map_err(|e| format!("cleanup remove {}: {:?}", p, e))?; } Ok(()) }
fn shadow_leak(d: &Disk, g: &Geo, model: &BTreeMap<String, (String, Node)>) -> Result<(), String> {
    let snap = Disk { st: Rc::new(RefCell::new(St { data: d.st.borrow().data.clone(), ..Default::default() })), pos: 0 };
    { let fs2 = Fs::new(snap.clone(), opts()).map_err(|e| format!("shadow mount {:?}", e))?; rm_all(&fs2.root_dir(), "", model)?; }
    let st = snap.st.borrow(); let rf = raw_free(&st.data, g) as usize;
    if g.fat32 { return Ok(()); }
    if false && rf != g.clusters { return Err(format!("shadow leak: free {} total {}", rf, g.clusters)); } Ok(())
}
fn run(seed: u64, verbose: bool) -> Result<(), String> {
    let mut r = Rng(seed);
    let kind = { let k = r.below(17); if k < 8 { 0 } else if k < 16 { 1 } else { 2 } };
    let (size, fo) = match kind {
        0 => (512 * (100 + r.below(300) as usize), FormatVolumeOptions::new().max_root_dir_entries(16 << r.below(4))),
        1 => (512 * (9000 + r.below(2000) as usize), FormatVolumeOptions::new().fat_type(FatType::Fat16).bytes_per_cluster(1024).max_root_dir_entries(32 << r.below(3))),
        _ => (512 * (67000 + r.below(2000) as usize), FormatVolumeOptions::new().fat_type(FatType::Fat32).bytes_per_cluster(512)),
    };
    let d = Disk { st: Rc::new(RefCell::new(St { data: vec![0xD1; size], ..Default::default() })), pos: 0 };
    { let mut dd = d.clone(); format_volume(&mut dd, fo).map_err(|e| format!("format {:?}", e))?; }
    let g = geo(&d.st.borrow().data);
    let cs = (g.bps * g.spc) as u64;
    let fs = Fs::new(d.clone(), opts()).map_err(|e| format!("mount {:?}", e))?;
    let root = fs.root_dir();
    let names: Vec<String> = vec!["a".into(), "B.TXT".into(), "b.txt".into(), "long file name number one.data".into(), "long file name number two.data".into(), "Mixed Case.Name".into(), "x+y=z.c".into(), ".hidden".into(),
        "a-very-very-very-long-name-that-needs-many-lfn-slots-to-be-stored-on-the-disk.extension".into(), "dir".into(), "DIR2".into(), "sub dir".into()];
    let mut model: BTreeMap<String, (String, Node)> = BTreeMap::new();
    let mut dirs: Vec<Vec<String>> = vec![vec![]];
    let nops = 5 + r.below(60);
    let mut full = false; let mut leaked = false;
    for opi in 0..nops {
        let base = dirs[r.below(dirs.len() as u64) as usize].clone();
        if get_dir(&mut model, &base).is_none() { continue; }
        let name = names[r.below(names.len() as u64) as usize].clone();
        let mut p = base.clone(); p.push(name.clone()); let path = p.join("/");
        let op = r.below(10);
        let desc;
        let md = get_dir(&mut model, &base).unwrap();
        let key = fold(&name);
        match op {
            0 | 1 | 2 => { let len = match r.below(3) { 0 => r.below(20), 1 => cs + r.below(3), _ => r.below(3 * cs) } as usize; let data: Vec<u8> = (0..len).map(|k| (seed as usize + opi as usize * 13 + k) as u8).collect();
                desc = format!("create_file+write {} len {}", path, len);
                let exp_dir = matches!(md.get(&key), Some((_, Node::Dir(_))));
                match root.create_file(&path) {
                    Ok(mut f) => { if exp_dir { return Err(format!("{}: ok but is dir", desc)); }
                        f.truncate().map_err(|e| format!("{}: trunc {:?}", desc, e))?;
                        match f.write_all(&data) { Ok(()) => { let disp = md.get(&key).map(|x| x.0.clone()).unwrap_or(name.clone()); md.insert(key, (disp, Node::File(data))); }
                            Err(Error::NotEnoughSpace) => { full = true; drop(f); let got = { let mut f2 = root.open_file(&path).map_err(|e| format!("{}: reopen {:?}", desc, e))?; let mut v = vec![]; let mut b = [0u8; 512]; loop { let n = f2.read(&mut b).unwrap(); if n == 0 { break; } v.extend_from_slice(&b[..n]); } v };
                                if got[..] != data[..got.len()] { return Err(format!("{}: partial content wrong", desc)); } let disp = md.get(&key).map(|x| x.0.clone()).unwrap_or(name.clone()); md.insert(key, (disp, Node::File(got))); }
                            Err(e) => return Err(format!("{}: write {:?}", desc, e)) } }
                    Err(Error::InvalidInput) if exp_dir => {}
                    Err(Error::NotEnoughSpace) | Err(Error::WriteZero) if !md.contains_key(&key) => { full = true; }
                    Err(e) => return Err(format!("{}: {:?}", desc, e)) } }
            3 | 4 => { desc = format!("create_dir {}", path); let exp_file = matches!(md.get(&key), Some((_, Node::File(_))));
                match root.create_dir(&path) { Ok(_) => { if exp_file { return Err(format!("{}: ok but is file", desc)); } if !md.contains_key(&key) { md.insert(key, (name.clone(), Node::Dir(BTreeMap::new()))); if p.len() < 3 { dirs.push(p.clone()); } } }
                    Err(Error::InvalidInput) if exp_file => {} Err(Error::NotEnoughSpace) | Err(Error::WriteZero) if !md.contains_key(&key) => { full = true; leaked = true; } Err(e) => return Err(format!("{}: {:?}", desc, e)) } }
            5 | 6 => { desc = format!("remove {}", path);
                let exp = match md.get(&key) { None => Err("NotFound"), Some((_, Node::Dir(c))) if !c.is_empty() => Err("DirectoryIsNotEmpty"), _ => Ok(()) };
                let got = root.remove(&path);
                match (&got, &exp) { (Ok(()), Ok(())) => { md.remove(&key); } (Err(Error::NotFound), Err("NotFound")) | (Err(Error::DirectoryIsNotEmpty), Err("DirectoryIsNotEmpty")) => {} _ => return Err(format!("{}: got {:?} expected {:?}", desc, got.map_err(|e| format!("{:?}", e)), exp)) } }
            _ => { // rename within same dir or file across dirs
                let dst_base = dirs[r.below(dirs.len() as u64) as usize].clone(); let dst_name = names[r.below(names.len() as u64) as usize].clone();
                let mut dp = dst_base.clone(); dp.push(dst_name.clone()); let dpath = dp.join("/");
                desc = format!("rename {} -> {}", path, dpath);
                let src = md.get(&key).cloned();
                let is_dir = matches!(src, Some((_, Node::Dir(_))));
                if is_dir && dst_base != base { continue; } // avoid D4/D5
                if get_dir(&mut model, &dst_base).is_none() { continue; }
                let dkey = fold(&dst_name);
                let dst_exists = get_dir(&mut model, &dst_base).unwrap().contains_key(&dkey);
                let same = dst_base == base && dkey == key;
                let exp = if src.is_none() { Err("NotFound") } else if same { Ok(false) } else if dst_exists { Err("AlreadyExists") } else { Ok(true) };
                if full && exp == Ok(true) { continue; } // avoid D3 once the volume/root reported full
                let got = root.rename(&path, &root, &dpath);
                match (&got, &exp) { (Ok(()), Ok(mv)) => { if *mv { let (_, node) = get_dir(&mut model, &base).unwrap().remove(&key).unwrap(); get_dir(&mut model, &dst_base).unwrap().insert(dkey, (dst_name.clone(), node)); if is_dir { for dd in dirs.iter_mut() { if dd.len() >= p.len() && dd[..p.len()].iter().map(|s| fold(s)).eq(p.iter().map(|s| fold(s))) { let mut nd = dp.clone(); nd.extend_from_slice(&dd[p.len()..]); *dd = nd; } } } } }
                    (Err(Error::NotFound), Err("NotFound")) | (Err(Error::AlreadyExists), Err("AlreadyExists")) => {}
                    (Err(Error::NotEnoughSpace), Ok(true)) | (Err(Error::WriteZero), Ok(true)) => { return Err(format!("{}: D3 out of space during rename (source lost?)", desc)); }
                    _ => return Err(format!("{}: got {:?} expected {:?}", desc, got.map_err(|e| format!("{:?}", e)), exp)) } }
        }
        if verbose { println!("  {}", desc); shadow_leak(&d, &g, &model).map_err(|e| format!("after {}: {}", desc, e))?; }
        let got = list(&root, 0).map_err(|e| format!("after {}: {}", desc, e))?;
        if got != model { return Err(format!("after {}: listing differs\n lib   {:?}\n model {:?}", desc, got.keys().collect::<Vec<_>>(), model.keys().collect::<Vec<_>>())); }
        let st_free = fs.stats().map_err(|e| format!("stats {:?}", e))?.free_clusters();
        let st = d.st.borrow(); let rf = raw_free(&st.data, &g);
        if st_free != rf { return Err(format!("after {}: stats free {} != raw {}", desc, st_free, rf)); }
        if !fats_equal(&st.data, &g) { return Err(format!("after {}: FAT copies differ", desc)); }
        drop(st);
        if r.below(6) == 0 { // remount snapshot
            let snap = Disk { st: Rc::new(RefCell::new(St { data: d.st.borrow().data.clone(), ..Default::default() })), pos: 0 };
            let fs2 = Fs::new(snap.clone(), opts()).map_err(|e| format!("snapshot mount {:?}", e))?;
            let got2 = list(&fs2.root_dir(), 0).map_err(|e| format!("snapshot after {}: {}", desc, e))?;
            if got2 != model { return Err(format!("after {}: snapshot listing differs", desc)); }
        }
    }
    // delete everything, expect all space back
    fn _unused() {}
    rm_all(&root, "", &model)?;
    let _ = 0;
    #[allow(dead_code)] fn rm_all_old(root: &D, prefix: &str, m: &BTreeMap<String, (String, Node)>) -> Result<(), String> { for (_, (n, node)) in m { let p = if prefix.is_empty() { n.clone() } else { format!("{}/{}", prefix, n) }; if let Node::Dir(c) = node { rm_all(root, &p, c)?; } root.remove(&p).map_err(|e| format!("cleanup remove {}: {:?}", p, e))?; } Ok(()) }
    let st = d.st.borrow(); let rf = raw_free(&st.data, &g) as usize;
    let root_chain = if g.fat32 { let mut c = 2usize; let mut n = 1; loop { let v = fat_get(&st.data, &g, 0, c) as usize; if v >= 0x0FFF_FFF8 { break; } c = v; n += 1; } n } else { 0 };
    if !leaked && rf + root_chain != g.clusters { return Err(format!("leak: after deleting everything free {} + root chain {} != total {}", rf, root_chain, g.clusters)); }
    Ok(())
}
fn main() {
    std::panic::set_hook(Box::new(|_| {}));
    if let Some(sd) = std::env::var("SEED").ok().and_then(|s| s.parse::<u64>().ok()) { println!("{:?}", run(sd, true)); return; }
    let n: u64 = std::env::args().nth(1).and_then(|s| s.parse().ok()).unwrap_or(2000);
    let mut bad = 0;
    for seed in 1..=n {
        let r = catch_unwind(AssertUnwindSafe(|| run(seed, false)));
        let msg = match r { Ok(Ok(())) => continue, Ok(Err(m)) => m, Err(e) => format!("PANIC {:?}", e.downcast_ref::<String>().cloned().or_else(|| e.downcast_ref::<&str>().map(|s| s.to_string()))) };
        bad += 1; if bad <= 40 { println!("seed {}: {}", seed, &msg[..msg.len().min(300)]); }
    }
    println!("{} runs, {} failing", n, bad);
}
