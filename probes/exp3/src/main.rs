use fatfs::*;
fn lfn_slot(ord: u8, chk: u8, units: [u16; 13]) -> [u8; 32] {
    let mut s = [0u8; 32];
    s[0] = ord; s[11] = 0x0F; s[13] = chk;
    let offs = [1usize, 3, 5, 7, 9, 14, 16, 18, 20, 22, 24, 28, 30];
    for (i, o) in offs.iter().enumerate() { s[*o..*o + 2].copy_from_slice(&units[i].to_le_bytes()); }
    s
}
fn chk(n: &[u8; 11]) -> u8 { let mut c = 0u8; for b in n { c = (c << 7).wrapping_add(c >> 1).wrapping_add(*b); } c }
fn main() {
    let mut img = vec![0u8; 512 * 400];
    { let mut c = StdIoWrapper::new(std::io::Cursor::new(&mut img[..])); format_volume(&mut c, FormatVolumeOptions::new()).unwrap(); }
    let spf = u16::from_le_bytes([img[22], img[23]]) as usize;
    let root = (1 + 2 * spf) * 512;
    let sfn = *b"SHORT   TXT";
    let c = chk(&sfn);
    // orphan LAST|3 with 'Z's, then valid LAST|1 "ab" + SFN
    let mut slots: Vec<[u8; 32]> = vec![];
    slots.push(lfn_slot(0x43, c, [b'Z' as u16; 13]));
    let mut u = [0xFFFFu16; 13]; u[0] = b'a' as u16; u[1] = b'b' as u16; u[2] = 0;
    slots.push(lfn_slot(0x41, c, u));
    let mut s = [0u8; 32]; s[..11].copy_from_slice(&sfn); s[11] = 0x20; slots.push(s);
    for (i, s) in slots.iter().enumerate() { img[root + i * 32..root + i * 32 + 32].copy_from_slice(s); }
    let cur = StdIoWrapper::new(std::io::Cursor::new(&mut img[..]));
    let fs = FileSystem::new(cur, FsOptions::new()).unwrap();
    for e in fs.root_dir().iter() {
        let e = e.unwrap();
        let lfn = e.long_file_name_as_ucs2_units().map(|u| String::from_utf16_lossy(u));
        println!("alloc={} lfn={:?} short={:?}", cfg!(feature = "alloc"), lfn, std::str::from_utf8(e.short_file_name_as_bytes()));
    }
}
