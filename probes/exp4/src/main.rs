// scratch probe: random file-I/O differential test + raw-image side checks
use fatfs::*;
use std::cell::RefCell;
use std::panic::{catch_unwind, AssertUnwindSafe};
use std::rc::Rc;

#[derive(Debug)]
struct E;
impl IoError for E {
    fn is_interrupted(&self) -> bool { false }
    fn new_unexpected_eof_error() -> Self { E }
    fn new_write_zero_error() -> Self { E }
}
#[derive(Default)]
struct St { data: Vec<u8>, writes: u64, flushes: u64, unflushed: u64 }
#[derive(Clone)]
struct Disk { st: Rc<RefCell<St>>, pos: u64 }
impl IoBase for Disk { type Error = E; }
impl Read for Disk {
    fn read(&mut self, b: &mut [u8]) -> Result<usize, E> {
        let s = self.st.borrow(); let p = self.pos as usize;
        if p >= s.data.len() { return Ok(0); }
        let n = b.len().min(s.data.len() - p); b[..n].copy_from_slice(&s.data[p..p + n]); drop(s);
        self.pos += n as u64; Ok(n)
    }
}
impl Write for Disk {
    fn write(&mut self, b: &[u8]) -> Result<usize, E> {
        let mut s = self.st.borrow_mut(); let p = self.pos as usize;
        if p >= s.data.len() { return Ok(0); }
        let n = b.len().min(s.data.len() - p); s.data[p..p + n].copy_from_slice(&b[..n]);
        s.writes += 1; s.unflushed += 1; drop(s); self.pos += n as u64; Ok(n)
    }
    fn flush(&mut self) -> Result<(), E> { let mut s = self.st.borrow_mut(); s.flushes += 1; s.unflushed = 0; Ok(()) }
}
impl Seek for Disk {
    fn seek(&mut self, p: SeekFrom) -> Result<u64, E> {
        let len = self.st.borrow().data.len() as i64;
        let np = match p { SeekFrom::Start(x) => x as i64, SeekFrom::End(x) => len + x, SeekFrom::Current(x) => self.pos as i64 + x };
        if np < 0 { return Err(E); } self.pos = np as u64; Ok(self.pos)
    }
}
type Fs = FileSystem<Disk, NullTimeProvider, LossyOemCpConverter>;
fn opts() -> FsOptions<NullTimeProvider, LossyOemCpConverter> { FsOptions::new().time_provider(NullTimeProvider::new()) }

struct Rng(u64);
impl Rng { fn next(&mut self) -> u64 { self.0 = self.0.wrapping_add(0x9E3779B97F4A7C15); let mut z = self.0; z = (z ^ (z >> 30)).wrapping_mul(0xBF58476D1CE4E5B9); z = (z ^ (z >> 27)).wrapping_mul(0x94D049BB133111EB); z ^ (z >> 31) }
           fn below(&mut self, n: u64) -> u64 { self.next() % n } }

struct Geo { bps: usize, spc: usize, rsvd: usize, fats: usize, spf: usize, root_secs: usize, clusters: usize, bits: u32, fat32: bool }
fn geo(d: &[u8]) -> Geo {
    let bps = u16::from_le_bytes([d[11], d[12]]) as usize; let spc = d[13] as usize; let rsvd = u16::from_le_bytes([d[14], d[15]]) as usize;
    let fats = d[16] as usize; let root_ents = u16::from_le_bytes([d[17], d[18]]) as usize;
    let ts16 = u16::from_le_bytes([d[19], d[20]]) as usize; let spf16 = u16::from_le_bytes([d[22], d[23]]) as usize;
    let ts32 = u32::from_le_bytes([d[32], d[33], d[34], d[35]]) as usize; let spf32 = u32::from_le_bytes([d[36], d[37], d[38], d[39]]) as usize;
    let spf = if spf16 != 0 { spf16 } else { spf32 }; let ts = if ts16 != 0 { ts16 } else { ts32 };
    let root_secs = (root_ents * 32 + bps - 1) / bps; let data = ts - rsvd - fats * spf - root_secs; let clusters = data / spc;
    let bits = if clusters < 4085 { 12 } else if clusters < 65525 { 16 } else { 32 };
    Geo { bps, spc, rsvd, fats, spf, root_secs, clusters, bits, fat32: spf16 == 0 }
}
fn fat_get(d: &[u8], g: &Geo, copy: usize, c: usize) -> u32 {
    let base = (g.rsvd + copy * g.spf) * g.bps;
    match g.bits { 12 => { let o = base + c + c / 2; let v = u16::from_le_bytes([d[o], d[o + 1]]); (if c & 1 == 0 { v & 0xFFF } else { v >> 4 }) as u32 }
                   16 => { let o = base + c * 2; u16::from_le_bytes([d[o], d[o + 1]]) as u32 }
                   _ => { let o = base + c * 4; u32::from_le_bytes([d[o], d[o + 1], d[o + 2], d[o + 3]]) & 0x0FFF_FFFF } }
}
fn raw_free(d: &[u8], g: &Geo) -> u32 { (2..g.clusters + 2).filter(|&c| fat_get(d, g, 0, c) == 0).count() as u32 }
fn fats_equal(d: &[u8], g: &Geo) -> bool { let sz = g.spf * g.bps; let b = g.rsvd * g.bps; (1..g.fats).all(|i| d[b..b + sz] == d[b + i * sz..b + (i + 1) * sz]) }
fn status(d: &[u8], g: &Geo) -> u8 { if g.fat32 { d[0x41] } else { d[0x25] } }

fn run(seed: u64, verbose: bool) -> Result<(), String> {
    let mut r = Rng(seed);
    let kind = { let k = r.below(9); if k < 4 { 0 } else if k < 8 { 1 } else { 2 } };
    let (size, fo) = match kind {
        0 => (512 * (100 + r.below(300) as usize), FormatVolumeOptions::new().max_root_dir_entries(16 << r.below(3))),
        1 => (512 * (9000 + r.below(2000) as usize), FormatVolumeOptions::new().fat_type(FatType::Fat16).bytes_per_cluster(1024)),
        _ => (512 * (67000 + r.below(2000) as usize), FormatVolumeOptions::new().fat_type(FatType::Fat32).bytes_per_cluster(512)),
    };
    let fo = if r.below(2) == 0 { fo.fats(1) } else { fo };
    let d = Disk { st: Rc::new(RefCell::new(St { data: vec![0xD1; size], ..Default::default() })), pos: 0 };
    { let mut dd = d.clone(); format_volume(&mut dd, fo).map_err(|e| format!("format {:?}", e))?; }
    let g = geo(&d.st.borrow().data);
    let cs = (g.bps * g.spc) as u64;
    let fs = Fs::new(d.clone(), opts()).map_err(|e| format!("mount {:?}", e))?;
    let root = fs.root_dir();
    let nfiles = 1 + r.below(3) as usize;
    let mut models: Vec<Vec<u8>> = vec![vec![]; nfiles];
    let mut cur: Vec<u64> = vec![0; nfiles];
    let mut files: Vec<Option<File<Disk, NullTimeProvider, LossyOemCpConverter>>> = (0..nfiles).map(|i| Some(root.create_file(&format!("file{}.dat", i)).unwrap())).collect();
    let mut changed = false;
    let nops = 5 + r.below(40);
    for opi in 0..nops {
        let i = r.below(nfiles as u64) as usize;
        if files[i].is_none() { files[i] = Some(root.open_file(&format!("file{}.dat", i)).map_err(|e| format!("reopen {:?}", e))?); cur[i] = 0; }
        let f = files[i].as_mut().unwrap();
        let pick_off = |r: &mut Rng, m: u64| -> u64 { match r.below(4) { 0 => { let k = r.below(5); (k * cs + r.below(3)).saturating_sub(1) } 1 => m, 2 => r.below(m + 1), _ => r.below(5 * cs + 2) } };
        let op = r.below(10);
        let desc;
        match op {
            0 | 1 | 2 => { // write
                let len = match r.below(3) { 0 => r.below(8), 1 => cs * r.below(3) + r.below(3), _ => r.below(3 * cs) } as usize;
                let buf: Vec<u8> = (0..len).map(|k| (seed as usize * 31 + opi as usize * 7 + k) as u8 | 1).collect();
                desc = format!("write f{} @{} len {}", i, cur[i], len);
                let mut off = 0;
                while off < len { let n = f.write(&buf[off..]).map_err(|e| format!("{}: {:?}", desc, e))?; if n == 0 { return Err(format!("{}: wrote 0", desc)); } off += n; }
                let c = cur[i] as usize; let m = &mut models[i]; if m.len() < c + len { m.resize(c + len, 0); } m[c..c + len].copy_from_slice(&buf); cur[i] += len as u64; if len > 0 { changed = true; }
            }
            3 | 4 => { // read
                let len = r.below(2 * cs + 2) as usize; let mut buf = vec![0u8; len];
                desc = format!("read f{} @{} len {}", i, cur[i], len);
                let n = f.read(&mut buf).map_err(|e| format!("{}: {:?}", desc, e))?;
                let rem = models[i].len() as u64 - cur[i];
                if (n == 0) != (len == 0 || rem == 0) { return Err(format!("{}: n={} rem={}", desc, n, rem)); }
                if n as u64 > rem { return Err(format!("{}: n={} > rem={}", desc, n, rem)); }
                if buf[..n] != models[i][cur[i] as usize..cur[i] as usize + n] { return Err(format!("{}: data mismatch", desc)); }
                cur[i] += n as u64;
            }
            5 | 6 => { // seek
                let m = models[i].len() as u64;
                let (sf, exp): (SeekFrom, Option<u64>) = match r.below(3) {
                    0 => { let x = pick_off(&mut r, m); (SeekFrom::Start(x), Some(x.min(m))) }
                    1 => { let x = pick_off(&mut r, m) as i64 - cur[i] as i64 + r.below(3) as i64 - 1; let t = cur[i] as i64 + x; (SeekFrom::Current(x), if t < 0 { None } else { Some((t as u64).min(m)) }) }
                    _ => { let x = r.below(2 * cs + 2) as i64 - (cs as i64 + 1) - if r.below(4) == 0 { m as i64 } else { 0 }; let t = m as i64 + x; (SeekFrom::End(x), if t < 0 { None } else { Some((t as u64).min(m)) }) }
                };
                desc = format!("seek f{} {:?} (cur {}, size {})", i, sf, cur[i], m);
                let res = f.seek(sf);
                match (res, exp) { (Ok(p), Some(e)) if p == e => { cur[i] = p; } (Err(Error::InvalidInput), None) => {} (r2, e) => return Err(format!("{}: got {:?} expected {:?}", desc, r2.map_err(|e| format!("{:?}", e)), e)) }
            }
            7 => { desc = format!("truncate f{} @{}", i, cur[i]); f.truncate().map_err(|e| format!("{}: {:?}", desc, e))?; if (cur[i] as usize) < models[i].len() { changed = true; } models[i].truncate(cur[i] as usize); }
            8 => { desc = format!("flush f{}", i); f.flush().map_err(|e| format!("{}: {:?}", desc, e))?;
                   if d.st.borrow().unflushed != 0 { return Err(format!("{}: device has unflushed writes after File::flush", desc)); }
                   // durability: snapshot + remount
                   let snap = Disk { st: Rc::new(RefCell::new(St { data: d.st.borrow().data.clone(), ..Default::default() })), pos: 0 };
                   let fs2 = Fs::new(snap.clone(), opts()).map_err(|e| format!("{}: snapshot mount {:?}", desc, e))?;
                   let mut f2 = fs2.root_dir().open_file(&format!("file{}.dat", i)).map_err(|e| format!("{}: snapshot open {:?}", desc, e))?;
                   let mut got = vec![]; let mut b = [0u8; 700]; loop { let n = f2.read(&mut b).unwrap(); if n == 0 { break; } got.extend_from_slice(&b[..n]); }
                   if got != models[i] { return Err(format!("{}: snapshot content differs: {} vs {}", desc, got.len(), models[i].len())); }
                   if changed && !fs2.read_status_flags().unwrap().dirty() { return Err(format!("{}: abandoned snapshot not dirty", desc)); }
                   drop(f2); drop(fs2);
            }
            _ => { desc = format!("close f{}", i); files[i] = None; }
        }
        if verbose { println!("  {}", desc); }
        // side checks after every call
        let st = d.st.borrow();
        let st_free = { drop(st); fs.stats().map_err(|e| format!("stats {:?}", e))?.free_clusters() };
        let st = d.st.borrow();
        let rf = raw_free(&st.data, &g);
        if st_free != rf { return Err(format!("after {}: stats free {} != raw {}", desc, st_free, rf)); }
        if !fats_equal(&st.data, &g) { return Err(format!("after {}: FAT copies differ", desc)); }
        if changed && status(&st.data, &g) & 1 == 0 { return Err(format!("after {}: dirty bit not set", desc)); }
        // all handles closed => strict chain length check
        if files.iter().all(|f| f.is_none()) {
            let used = g.clusters as u32 - rf - if g.fat32 { 1 } else { 0 };
            let need: u32 = models.iter().map(|m| ((m.len() as u64 + cs - 1) / cs) as u32).sum();
            if used != need { return Err(format!("after {}: used clusters {} != model need {}", desc, used, need)); }
        }
    }
    drop(files);
    drop(root);
    fs.unmount().map_err(|e| format!("unmount {:?}", e))?;
    let st = d.st.borrow();
    if status(&st.data, &g) != 0 { return Err("status byte not restored".into()); }
    if g.fat32 { let o = g.bps; let fc = u32::from_le_bytes([st.data[o + 488], st.data[o + 489], st.data[o + 490], st.data[o + 491]]); let nf = u32::from_le_bytes([st.data[o + 492], st.data[o + 493], st.data[o + 494], st.data[o + 495]]);
        if fc != raw_free(&st.data, &g) { return Err(format!("fsinfo free {} != raw {}", fc, raw_free(&st.data, &g))); }
        if nf < 2 || nf as usize > g.clusters + 2 { return Err(format!("fsinfo next_free {} out of range (clusters {})", nf, g.clusters)); } }
    Ok(())
}
fn main() {
    std::panic::set_hook(Box::new(|_| {}));
    let n: u64 = std::env::args().nth(1).and_then(|s| s.parse().ok()).unwrap_or(2000);
    let mut bad = 0;
    for seed in 1..=n {
        let r = catch_unwind(AssertUnwindSafe(|| run(seed, false)));
        let msg = match r { Ok(Ok(())) => continue, Ok(Err(m)) => m, Err(e) => format!("PANIC {:?}", e.downcast_ref::<String>().cloned().or_else(|| e.downcast_ref::<&str>().map(|s| s.to_string()))) };
        bad += 1; if bad <= 12 { println!("seed {}: {}", seed, msg); }
    }
    println!("{} runs, {} failing", n, bad);
}
